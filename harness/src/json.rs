//! Minimal JSON value + writer (no parsing: parsing is done by the python driver).

#[derive(Clone, Debug)]
pub enum J {
    Null,
    Bool(bool),
    Int(i128),
    Num(f64),
    Str(String),
    Arr(Vec<J>),
    Obj(Vec<(String, J)>),
}

impl J {
    pub fn s<S: AsRef<str>>(s: S) -> J {
        J::Str(s.as_ref().to_string())
    }
    pub fn obj(pairs: Vec<(&str, J)>) -> J {
        J::Obj(pairs.into_iter().map(|(k, v)| (k.to_string(), v)).collect())
    }
    pub fn push(&mut self, k: &str, v: J) {
        if let J::Obj(o) = self {
            o.push((k.to_string(), v));
        }
    }
    pub fn render(&self) -> String {
        let mut out = String::new();
        self.write(&mut out);
        out
    }
    fn write(&self, out: &mut String) {
        match self {
            J::Null => out.push_str("null"),
            J::Bool(b) => out.push_str(if *b { "true" } else { "false" }),
            J::Int(i) => out.push_str(&i.to_string()),
            J::Num(f) => {
                if f.is_finite() {
                    out.push_str(&format!("{}", f));
                } else {
                    out.push_str("null")
                }
            }
            J::Str(s) => write_str(s, out),
            J::Arr(a) => {
                out.push('[');
                for (i, v) in a.iter().enumerate() {
                    if i > 0 {
                        out.push(',');
                    }
                    v.write(out);
                }
                out.push(']');
            }
            J::Obj(o) => {
                out.push('{');
                for (i, (k, v)) in o.iter().enumerate() {
                    if i > 0 {
                        out.push(',');
                    }
                    write_str(k, out);
                    out.push(':');
                    v.write(out);
                }
                out.push('}');
            }
        }
    }
}

fn write_str(s: &str, out: &mut String) {
    out.push('"');
    for c in s.chars() {
        match c {
            '"' => out.push_str("\\\""),
            '\\' => out.push_str("\\\\"),
            '\n' => out.push_str("\\n"),
            '\r' => out.push_str("\\r"),
            '\t' => out.push_str("\\t"),
            c if (c as u32) < 0x20 || c as u32 == 0x7f => out.push_str(&format!("\\u{:04x}", c as u32)),
            c if (c as u32) > 0xffff => {
                let v = c as u32 - 0x10000;
                out.push_str(&format!("\\u{:04x}\\u{:04x}", 0xd800 + (v >> 10), 0xdc00 + (v & 0x3ff)));
            }
            c => out.push(c),
        }
    }
    out.push('"');
}

impl From<&str> for J {
    fn from(s: &str) -> J {
        J::Str(s.to_string())
    }
}
impl From<String> for J {
    fn from(s: String) -> J {
        J::Str(s)
    }
}
impl From<u64> for J {
    fn from(s: u64) -> J {
        J::Int(s as i128)
    }
}
impl From<usize> for J {
    fn from(s: usize) -> J {
        J::Int(s as i128)
    }
}
impl From<bool> for J {
    fn from(s: bool) -> J {
        J::Bool(s)
    }
}
