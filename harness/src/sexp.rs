//! Independent reader for Guile 3 lexical syntax (the subset a generated policy can legally use).
//! Written from the Guile manual ("Scheme Syntax", "String Read Syntax", "Characters"), not from
//! the generator. Works on characters. Anything outside the accepted syntax is a read error, as it
//! would be for `read` in Guile.

#[derive(Clone, Debug, PartialEq)]
pub enum Sx {
    List(Vec<Sx>),
    Sym(String),
    Str(String),
    Int(i128),
    Char(char),
    Bool(bool),
}

#[derive(Clone, Debug, PartialEq)]
pub struct ReadError {
    pub pos: usize,
    pub msg: String,
}

struct Rd<'a> {
    cs: &'a [char],
    i: usize,
}

fn is_delim(c: char) -> bool {
    c.is_whitespace() || c == '(' || c == ')' || c == '"' || c == ';'
}

impl<'a> Rd<'a> {
    fn err<T>(&self, msg: &str) -> Result<T, ReadError> {
        Err(ReadError { pos: self.i, msg: msg.to_string() })
    }
    fn skip_ws(&mut self) -> Result<(), ReadError> {
        loop {
            while self.i < self.cs.len() && self.cs[self.i].is_whitespace() {
                self.i += 1;
            }
            if self.i < self.cs.len() && self.cs[self.i] == ';' {
                while self.i < self.cs.len() && self.cs[self.i] != '\n' {
                    self.i += 1;
                }
                continue;
            }
            // block comment #| ... |#
            if self.i + 1 < self.cs.len() && self.cs[self.i] == '#' && self.cs[self.i + 1] == '|' {
                let mut depth = 1;
                self.i += 2;
                while depth > 0 {
                    if self.i + 1 >= self.cs.len() {
                        return self.err("unterminated block comment");
                    }
                    if self.cs[self.i] == '|' && self.cs[self.i + 1] == '#' {
                        depth -= 1;
                        self.i += 2;
                    } else if self.cs[self.i] == '#' && self.cs[self.i + 1] == '|' {
                        depth += 1;
                        self.i += 2;
                    } else {
                        self.i += 1;
                    }
                }
                continue;
            }
            // datum comment #;
            if self.i + 1 < self.cs.len() && self.cs[self.i] == '#' && self.cs[self.i + 1] == ';' {
                self.i += 2;
                self.datum()?;
                continue;
            }
            return Ok(());
        }
    }

    fn datum(&mut self) -> Result<Sx, ReadError> {
        self.skip_ws()?;
        if self.i >= self.cs.len() {
            return self.err("unexpected end of input");
        }
        let c = self.cs[self.i];
        match c {
            '(' | '[' => {
                let close = if c == '(' { ')' } else { ']' };
                self.i += 1;
                let mut items = vec![];
                loop {
                    self.skip_ws()?;
                    if self.i >= self.cs.len() {
                        return self.err("unterminated list");
                    }
                    if self.cs[self.i] == close {
                        self.i += 1;
                        return Ok(Sx::List(items));
                    }
                    if self.cs[self.i] == ')' || self.cs[self.i] == ']' {
                        return self.err("mismatched close paren");
                    }
                    items.push(self.datum()?);
                }
            }
            ')' | ']' => self.err("unexpected close paren"),
            '"' => self.string(),
            '\'' => {
                self.i += 1;
                let d = self.datum()?;
                Ok(Sx::List(vec![Sx::Sym("quote".into()), d]))
            }
            '`' => {
                self.i += 1;
                let d = self.datum()?;
                Ok(Sx::List(vec![Sx::Sym("quasiquote".into()), d]))
            }
            ',' => {
                self.i += 1;
                let name = if self.i < self.cs.len() && self.cs[self.i] == '@' {
                    self.i += 1;
                    "unquote-splicing"
                } else {
                    "unquote"
                };
                let d = self.datum()?;
                Ok(Sx::List(vec![Sx::Sym(name.into()), d]))
            }
            '#' => self.hash(),
            _ => self.atom(),
        }
    }

    fn token(&mut self) -> String {
        let start = self.i;
        while self.i < self.cs.len() && !is_delim(self.cs[self.i]) {
            self.i += 1;
        }
        self.cs[start..self.i].iter().collect()
    }

    fn hash(&mut self) -> Result<Sx, ReadError> {
        // self.cs[self.i] == '#'
        if self.i + 1 >= self.cs.len() {
            return self.err("lone #");
        }
        let n = self.cs[self.i + 1];
        match n {
            '\\' => {
                // character: #\x1e, #\a, #\newline, #\( ...
                self.i += 2;
                if self.i >= self.cs.len() {
                    return self.err("eof in character");
                }
                let first = self.cs[self.i];
                self.i += 1;
                // take following non-delimiter chars
                let start = self.i;
                while self.i < self.cs.len() && !is_delim(self.cs[self.i]) {
                    self.i += 1;
                }
                let rest: String = self.cs[start..self.i].iter().collect();
                if rest.is_empty() {
                    return Ok(Sx::Char(first));
                }
                let name: String = std::iter::once(first).chain(rest.chars()).collect();
                if first == 'x' && rest.chars().all(|c| c.is_ascii_hexdigit()) {
                    let v = u32::from_str_radix(&rest, 16).map_err(|_| ReadError { pos: self.i, msg: "bad hex char".into() })?;
                    return match char::from_u32(v) {
                        Some(c) => Ok(Sx::Char(c)),
                        None => self.err("character out of range"),
                    };
                }
                if name.chars().all(|c| ('0'..='7').contains(&c)) && name.len() <= 6 && name.len() >= 2 {
                    let v = u32::from_str_radix(&name, 8).unwrap();
                    return match char::from_u32(v) {
                        Some(c) => Ok(Sx::Char(c)),
                        None => self.err("character out of range"),
                    };
                }
                let named = match name.as_str() {
                    "nul" | "null" => Some('\0'),
                    "alarm" => Some('\x07'),
                    "backspace" => Some('\x08'),
                    "tab" | "ht" => Some('\t'),
                    "newline" | "linefeed" | "nl" | "lf" => Some('\n'),
                    "vtab" | "vt" => Some('\x0b'),
                    "page" | "ff" | "np" => Some('\x0c'),
                    "return" | "cr" => Some('\r'),
                    "escape" | "esc" | "altmode" => Some('\x1b'),
                    "space" | "sp" => Some(' '),
                    "delete" | "del" | "rubout" => Some('\x7f'),
                    _ => None,
                };
                match named {
                    Some(c) => Ok(Sx::Char(c)),
                    None => self.err(&format!("unknown character name #\\{}", name)),
                }
            }
            't' | 'f' => {
                self.i += 1;
                let t = self.token();
                match t.as_str() {
                    "t" | "true" => Ok(Sx::Bool(true)),
                    "f" | "false" => Ok(Sx::Bool(false)),
                    _ => self.err(&format!("bad # syntax #{}", t)),
                }
            }
            'o' | 'x' | 'b' | 'd' | 'e' | 'i' => {
                self.i += 1;
                let t = self.token();
                let radix = match n {
                    'o' => 8,
                    'x' => 16,
                    'b' => 2,
                    'd' => 10,
                    _ => return self.err("exactness prefix not supported by the model"),
                };
                let body = &t[1..];
                let (neg, digits) = match body.strip_prefix('-') {
                    Some(d) => (true, d),
                    None => (false, body.strip_prefix('+').unwrap_or(body)),
                };
                if digits.is_empty() {
                    return self.err("empty number");
                }
                match i128::from_str_radix(digits, radix) {
                    Ok(v) => Ok(Sx::Int(if neg { -v } else { v })),
                    Err(_) => self.err(&format!("bad number #{}", t)),
                }
            }
            ':' => {
                // keyword
                self.i += 2;
                let t = self.token();
                Ok(Sx::Sym(format!("#:{}", t)))
            }
            _ => self.err(&format!("unsupported # syntax #{}", n)),
        }
    }

    fn string(&mut self) -> Result<Sx, ReadError> {
        self.i += 1; // opening quote
        let mut out = String::new();
        loop {
            if self.i >= self.cs.len() {
                return self.err("unterminated string");
            }
            let c = self.cs[self.i];
            self.i += 1;
            match c {
                '"' => return Ok(Sx::Str(out)),
                '\\' => {
                    if self.i >= self.cs.len() {
                        return self.err("eof after backslash in string");
                    }
                    let e = self.cs[self.i];
                    self.i += 1;
                    match e {
                        '\\' => out.push('\\'),
                        '"' => out.push('"'),
                        '0' => out.push('\0'),
                        'a' => out.push('\x07'),
                        'b' => out.push('\x08'),
                        'f' => out.push('\x0c'),
                        'n' => out.push('\n'),
                        'r' => out.push('\r'),
                        't' => out.push('\t'),
                        'v' => out.push('\x0b'),
                        '(' => out.push('('),
                        '|' => out.push('|'),
                        '\n' => {
                            // backslash-newline: skip the newline and leading blanks of next line
                            while self.i < self.cs.len() && (self.cs[self.i] == ' ' || self.cs[self.i] == '\t') {
                                self.i += 1;
                            }
                        }
                        'x' | 'u' | 'U' => {
                            let n = match e {
                                'x' => 2,
                                'u' => 4,
                                _ => 6,
                            };
                            if self.i + n > self.cs.len() {
                                return self.err("short hex escape in string");
                            }
                            let h: String = self.cs[self.i..self.i + n].iter().collect();
                            if !h.chars().all(|c| c.is_ascii_hexdigit()) {
                                return self.err(&format!("bad hex escape \\{}{}", e, h));
                            }
                            self.i += n;
                            match char::from_u32(u32::from_str_radix(&h, 16).unwrap()) {
                                Some(ch) => out.push(ch),
                                None => return self.err("hex escape out of range"),
                            }
                        }
                        other => return self.err(&format!("illegal character in escape sequence: \\{}", other)),
                    }
                }
                c => out.push(c),
            }
        }
    }

    fn atom(&mut self) -> Result<Sx, ReadError> {
        let t = self.token();
        if t.is_empty() {
            return self.err("empty token");
        }
        // integers
        let (neg, digits) = match t.strip_prefix('-') {
            Some(d) => (true, d),
            None => (false, t.strip_prefix('+').unwrap_or(&t)),
        };
        if !digits.is_empty() && digits.chars().all(|c| c.is_ascii_digit()) {
            return match digits.parse::<i128>() {
                Ok(v) => Ok(Sx::Int(if neg { -v } else { v })),
                Err(_) => self.err("integer literal too large for the model (i128)"),
            };
        }
        if digits.chars().next().map_or(false, |c| c.is_ascii_digit()) && digits.chars().all(|c| c.is_ascii_digit() || c == '.' || c == '/' || c == 'e') {
            return self.err(&format!("non-integer numeric literal not supported by the model: {}", t));
        }
        if t == "." {
            return self.err("dotted pairs not supported by the model");
        }
        Ok(Sx::Sym(t))
    }
}

/// Read every top-level datum of the text.
pub fn read_all(text: &str) -> Result<Vec<Sx>, ReadError> {
    let cs: Vec<char> = text.chars().collect();
    let mut rd = Rd { cs: &cs, i: 0 };
    let mut out = vec![];
    loop {
        rd.skip_ws()?;
        if rd.i >= cs.len() {
            return Ok(out);
        }
        out.push(rd.datum()?);
    }
}

impl Sx {
    pub fn sym(&self) -> Option<&str> {
        match self {
            Sx::Sym(s) => Some(s),
            _ => None,
        }
    }
    pub fn list(&self) -> Option<&[Sx]> {
        match self {
            Sx::List(l) => Some(l),
            _ => None,
        }
    }
    pub fn head(&self) -> Option<&str> {
        self.list().and_then(|l| l.first()).and_then(|h| h.sym())
    }
    /// All string leaves, in order.
    pub fn strings<'a>(&'a self, out: &mut Vec<&'a str>) {
        match self {
            Sx::Str(s) => out.push(s),
            Sx::List(l) => l.iter().for_each(|x| x.strings(out)),
            _ => {}
        }
    }
    /// Shape with string leaves abstracted away.
    pub fn skeleton(&self) -> String {
        match self {
            Sx::Str(_) => "\"\"".to_string(),
            Sx::List(l) => format!("({})", l.iter().map(|x| x.skeleton()).collect::<Vec<_>>().join(" ")),
            Sx::Sym(s) => s.clone(),
            Sx::Int(i) => i.to_string(),
            Sx::Char(c) => format!("#\\x{:x}", *c as u32),
            Sx::Bool(b) => (if *b { "#t" } else { "#f" }).to_string(),
        }
    }
    pub fn show(&self) -> String {
        match self {
            Sx::Str(s) => format!("{:?}", s),
            Sx::List(l) => format!("({})", l.iter().map(|x| x.show()).collect::<Vec<_>>().join(" ")),
            _ => self.skeleton(),
        }
    }
}

#[cfg(test)]
mod tests {
    use super::*;
    #[test]
    fn reads_snapshot_shapes() {
        let t = r#"(use-modules (lipe) (lipe find))
(let* ((%lf3:port:0 (current-output-port)) (%lf3:print:2 (make-printer %lf3:port:0 %lf3:mutex:1 #\x0a)))
  (x "a\nb\\" #o07777 #\x1e -5 #f))"#;
        let v = read_all(t).unwrap();
        assert_eq!(v.len(), 2);
        assert!(read_all("(a \"\\c\")").is_err());
        assert!(read_all("(a \"x").is_err());
        assert!(read_all("(a").is_err());
        assert!(read_all("a)").is_err());
        assert_eq!(read_all("#\\x1e").unwrap(), vec![Sx::Char('\x1e')]);
        assert_eq!(read_all("#\\x").unwrap(), vec![Sx::Char('x')]);
        assert_eq!(read_all("#\\x100").unwrap(), vec![Sx::Char('\u{100}')]);
    }
}
