mod eval;
mod findsem;
mod fnmatch;
mod gen;
mod json;
mod monitors;
mod policy;
mod rec;
mod report;
mod rng;
mod sexp;
mod sut;
mod tv;

use report::{Ctx, Report};

fn usage() -> ! {
    eprintln!("usage: fpv run <ID> [--tier quick|thorough] [--seed N] [--threads N] [--case stream:index] [--scale F] --out FILE");
    std::process::exit(2)
}

fn main() {
    let args: Vec<String> = std::env::args().collect();
    if args.len() < 3 {
        usage();
    }
    sut::install_hook();
    let cmd = args[1].as_str();
    let id = args[2].clone();
    let mut tier = "quick".to_string();
    let mut seed = 1u64;
    let mut threads = std::thread::available_parallelism().map(|n| n.get()).unwrap_or(4);
    let mut only = None;
    let mut out = None;
    let mut scale = 1.0f64;
    let mut i = 3;
    while i < args.len() {
        let need = |i: usize| -> &str { args.get(i + 1).map(|s| s.as_str()).unwrap_or_else(|| usage()) };
        match args[i].as_str() {
            "--tier" => tier = need(i).to_string(),
            "--seed" => seed = need(i).parse().unwrap_or_else(|_| usage()),
            "--threads" => threads = need(i).parse().unwrap_or_else(|_| usage()),
            "--scale" => scale = need(i).parse().unwrap_or_else(|_| usage()),
            "--out" => out = Some(need(i).to_string()),
            "--case" => {
                let (s, n) = need(i).rsplit_once(':').unwrap_or_else(|| usage());
                only = Some((s.to_string(), n.parse().unwrap_or_else(|_| usage())));
            }
            _ => usage(),
        }
        i += 2;
    }
    if cmd != "run" {
        usage();
    }
    let ctx = Ctx { tier_thorough: tier == "thorough", seed, threads, only, scale };
    let mut rep = Report::new();
    let start = std::time::Instant::now();
    match id.as_str() {
        "C02" => monitors::c02::run(&ctx, &mut rep),
        _ => {
            eprintln!("unknown property {}", id);
            std::process::exit(2)
        }
    }
    let profile = if cfg!(debug_assertions) { "debug" } else { "release" };
    let j = rep.to_json(&id, &tier, seed, profile, start.elapsed().as_secs_f64());
    let text = j.render();
    match out {
        Some(p) => std::fs::write(&p, text).expect("write result"),
        None => println!("{}", text),
    }
}
