mod cmp;
mod corpus;
mod eval;
mod findsem;
mod fnmatch;
mod gen;
mod json;
mod monitors;
mod policy;
mod rec;
mod report;
mod rng;
mod sched;
mod sexp;
mod spec;
mod sut;
mod tv;

use report::{Ctx, Report};

fn usage() -> ! {
    eprintln!("usage: fpv run <ID> [--tier quick|thorough] [--seed N] [--threads N] [--case stream:index] [--scale F] --out FILE");
    std::process::exit(2)
}

/// A logger that accepts every record and formats it into nothing: with it installed, the arguments of
/// the library's `log::debug!/warn!/error!` calls are evaluated (without a logger they are skipped).
struct Sink;
impl log::Log for Sink {
    fn enabled(&self, _: &log::Metadata) -> bool {
        true
    }
    fn log(&self, record: &log::Record) {
        use std::fmt::Write;
        let mut s = String::new();
        let _ = write!(s, "{} {}", record.level(), record.args());
        std::hint::black_box(&s);
    }
    fn flush(&self) {}
}
static SINK: Sink = Sink;

fn main() {
    if std::env::var_os("FPV_LOGGER").is_some() {
        let _ = log::set_logger(&SINK);
        log::set_max_level(log::LevelFilter::Trace);
    }
    let args: Vec<String> = std::env::args().collect();
    if args.len() < 3 {
        usage();
    }
    sut::install_hook();
    let cmd = args[1].as_str();
    if cmd == "show" {
        show(&args[2]);
        return;
    }
    let id = args[2].clone();
    let mut tier = "quick".to_string();
    let mut seed = 1u64;
    let mut threads = std::thread::available_parallelism().map(|n| n.get()).unwrap_or(4);
    let mut only = None;
    let mut out = None;
    let mut scale = 1.0f64;
    let mut range = None;
    let mut i = 3;
    while i < args.len() {
        let need = |i: usize| -> &str { args.get(i + 1).map(|s| s.as_str()).unwrap_or_else(|| usage()) };
        match args[i].as_str() {
            "--tier" => tier = need(i).to_string(),
            "--seed" => seed = need(i).parse().unwrap_or_else(|_| usage()),
            "--threads" => threads = need(i).parse().unwrap_or_else(|_| usage()),
            "--scale" => scale = need(i).parse().unwrap_or_else(|_| usage()),
            "--out" => out = Some(need(i).to_string()),
            "--range" => {
                let parts: Vec<&str> = need(i).split(':').collect();
                if parts.len() != 3 {
                    usage();
                }
                range = Some((parts[0].to_string(), parts[1].parse().unwrap_or_else(|_| usage()), parts[2].parse().unwrap_or_else(|_| usage())));
            }
            "--case" => {
                let (s, n) = need(i).rsplit_once(':').unwrap_or_else(|| usage());
                only = Some((s.to_string(), n.parse().unwrap_or_else(|_| usage())));
            }
            _ => usage(),
        }
        i += 2;
    }
    if cmd == "streams" {
        for s in corpus::STREAMS {
            println!("{} {}", s, corpus::count(s, tier == "thorough", scale));
        }
        println!("trees {}", monitors::c17::tree_count(tier == "thorough", scale));
        return;
    }
    if cmd == "digest" {
        let lines = match id.as_str() {
            "C15" => monitors::c15::digest(seed, (400.0 * scale * if tier == "thorough" { 50.0 } else { 1.0 }) as u64),
            "C17" => monitors::c17::digest(seed, tier == "thorough", scale, threads),
            _ => usage(),
        };
        let mut text = lines.join("\n");
        text.push('\n');
        std::fs::write(out.unwrap_or_else(|| usage()), text).expect("write digest");
        return;
    }
    if cmd == "record" {
        let (s, i) = only.clone().unwrap_or_else(|| usage());
        let (input, rec) = monitors::c17::record(seed, &s, i);
        println!("{}", json::J::obj(vec![("input", json::J::s(input)), ("record", json::J::s(rec))]).render());
        return;
    }
    if cmd != "run" {
        usage();
    }
    let ctx = Ctx { tier_thorough: tier == "thorough", seed, threads, only, scale, range, hang_secs: if id == "C03" { Some(30) } else { None } };
    let mut rep = Report::new();
    let start = std::time::Instant::now();
    match id.as_str() {
        "C01" => monitors::c01::run(&ctx, &mut rep),
        "C02" => monitors::c02::run(&ctx, &mut rep),
        "C03" => monitors::c03::run(&ctx, &mut rep),
        "C04" => monitors::c04::run(&ctx, &mut rep),
        "C05" => monitors::c05::run(&ctx, &mut rep),
        "C06" => monitors::c06::run(&ctx, &mut rep),
        "C07" => monitors::c07::run(&ctx, &mut rep),
        "C09" => monitors::c09::run(&ctx, &mut rep),
        "C10" => monitors::c10::run(&ctx, &mut rep),
        "C11" => monitors::c11::run(&ctx, &mut rep),
        "C12" => monitors::c12::run(&ctx, &mut rep),
        "C19" => monitors::c19::run(&ctx, &mut rep),
        "C20" => monitors::c20::run(&ctx, &mut rep),
        "C13" => monitors::c13::run(&ctx, &mut rep),
        "C15" => monitors::c15::run(&ctx, &mut rep),
        "C16" => monitors::c16::run(&ctx, &mut rep),
        "C18" => monitors::c18::run(&ctx, &mut rep),
        "C08" => monitors::c08::run(&ctx, &mut rep),
        "C14" => monitors::c14::run(&ctx, &mut rep),
        _ => {
            eprintln!("unknown property {}", id);
            std::process::exit(2)
        }
    }
    if ctx.only.is_some() || ctx.range.is_some() {
        rep.floors.clear();
    }
    let profile = if cfg!(debug_assertions) { "debug" } else { "release" };
    let j = rep.to_json(&id, &tier, seed, profile, start.elapsed().as_secs_f64());
    let text = j.render();
    match out {
        Some(p) => std::fs::write(&p, text).expect("write result"),
        None => println!("{}", text),
    }
}

fn show(text: &str) {
    println!("input: {:?}", text);
    println!("spec: {:?}", spec::parse_detail(text));
    match sut::parse_g(text) {
        Err(p) => println!("parse PANIC: {}", p.0),
        Ok(Err(e)) => println!("parse Err: {}", e),
        Ok(Ok((o, e))) => {
            println!("parse Ok: {:?} {}", o, format!("{:?}", e).split_whitespace().collect::<Vec<_>>().join(" "));
            match sut::compile_g(&e, &o, "/dev/mdt0") {
                Err(p) => println!("compile PANIC: {}", p.0),
                Ok((Err(m), _, _)) => println!("compile Err: {}", m),
                Ok((Ok(c), _, _)) => {
                    println!("io_map: {}", sut::io_map_sorted(&c.io_map));
                    println!("{}", c.text);
                }
            }
        }
    }
}
