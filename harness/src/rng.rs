//! Small deterministic PRNG (splitmix64 seeding an xorshift64*). No external crates.

#[derive(Clone, Debug)]
pub struct Rng(u64);

pub fn mix(mut z: u64) -> u64 {
    z = z.wrapping_add(0x9e3779b97f4a7c15);
    z = (z ^ (z >> 30)).wrapping_mul(0xbf58476d1ce4e5b9);
    z = (z ^ (z >> 27)).wrapping_mul(0x94d049bb133111eb);
    z ^ (z >> 31)
}

pub fn hash_str(s: &str) -> u64 {
    // FNV-1a 64 then mixed
    let mut h: u64 = 0xcbf29ce484222325;
    for b in s.as_bytes() {
        h ^= *b as u64;
        h = h.wrapping_mul(0x100000001b3);
    }
    mix(h)
}

impl Rng {
    pub fn new(seed: u64) -> Rng {
        let mut s = mix(seed);
        if s == 0 {
            s = 0x1234567;
        }
        Rng(s)
    }
    /// Derive a generator from (seed, stream name, index): the unit of replay.
    pub fn for_case(seed: u64, stream: &str, index: u64) -> Rng {
        Rng::new(mix(seed) ^ hash_str(stream) ^ mix(index.wrapping_mul(0x9e3779b97f4a7c15) ^ 0x5555))
    }
    pub fn next(&mut self) -> u64 {
        let mut x = self.0;
        x ^= x >> 12;
        x ^= x << 25;
        x ^= x >> 27;
        self.0 = x;
        x.wrapping_mul(0x2545F4914F6CDD1D)
    }
    pub fn below(&mut self, n: u64) -> u64 {
        if n == 0 {
            0
        } else {
            self.next() % n
        }
    }
    pub fn range(&mut self, lo: u64, hi_incl: u64) -> u64 {
        lo + self.below(hi_incl - lo + 1)
    }
    pub fn usize(&mut self, n: usize) -> usize {
        self.below(n as u64) as usize
    }
    pub fn chance(&mut self, num: u64, den: u64) -> bool {
        self.below(den) < num
    }
    pub fn pick<'a, T>(&mut self, xs: &'a [T]) -> &'a T {
        &xs[self.usize(xs.len())]
    }
    pub fn shuffle<T>(&mut self, xs: &mut [T]) {
        for i in (1..xs.len()).rev() {
            let j = self.usize(i + 1);
            xs.swap(i, j);
        }
    }
}
