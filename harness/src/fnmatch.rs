//! fnmatch(3) without flags (as find -name uses it; '/' is not special), shared by the model runtime
//! primitives and the reference evaluator: the checks are about which pattern / subject / case flag
//! reaches the matcher, not about glob matching itself.

pub fn has_glob(p: &str) -> bool {
    p.contains('*') || p.contains('?') || p.contains('[')
}

pub fn fnmatch(pat: &str, s: &str, ci: bool) -> bool {
    let fold = |c: char| if ci { c.to_lowercase().next().unwrap_or(c) } else { c };
    let p: Vec<char> = pat.chars().map(fold).collect();
    let t: Vec<char> = s.chars().map(fold).collect();
    m(&p, &t)
}

pub fn streq(a: &str, b: &str, ci: bool) -> bool {
    if ci {
        a.to_lowercase() == b.to_lowercase()
    } else {
        a == b
    }
}

fn m(p: &[char], t: &[char]) -> bool {
    if p.is_empty() {
        return t.is_empty();
    }
    match p[0] {
        '*' => {
            let mut k = 0;
            while k < p.len() && p[k] == '*' {
                k += 1;
            }
            let rest = &p[k..];
            if rest.is_empty() {
                return true;
            }
            for i in 0..=t.len() {
                if m(rest, &t[i..]) {
                    return true;
                }
            }
            false
        }
        '?' => !t.is_empty() && m(&p[1..], &t[1..]),
        '[' => {
            if t.is_empty() {
                return false;
            }
            // parse bracket expression
            let mut i = 1;
            let mut neg = false;
            if i < p.len() && (p[i] == '!' || p[i] == '^') {
                neg = true;
                i += 1;
            }
            let start = i;
            let mut matched = false;
            let mut closed = false;
            while i < p.len() {
                if p[i] == ']' && i > start {
                    closed = true;
                    break;
                }
                if i + 2 < p.len() && p[i + 1] == '-' && p[i + 2] != ']' {
                    if p[i] <= t[0] && t[0] <= p[i + 2] {
                        matched = true;
                    }
                    i += 3;
                } else {
                    if p[i] == t[0] {
                        matched = true;
                    }
                    i += 1;
                }
            }
            if !closed {
                // literal '['
                return t[0] == '[' && m(&p[1..], &t[1..]);
            }
            if matched != neg {
                m(&p[i + 1..], &t[1..])
            } else {
                false
            }
        }
        '\\' if p.len() > 1 => !t.is_empty() && t[0] == p[1] && m(&p[2..], &t[1..]),
        c => !t.is_empty() && t[0] == c && m(&p[1..], &t[1..]),
    }
}

#[cfg(test)]
mod tests {
    use super::*;
    #[test]
    fn basics() {
        assert!(fnmatch("*.txt", "a.txt", false));
        assert!(!fnmatch("*.txt", "a.TXT", false));
        assert!(fnmatch("*.txt", "a.TXT", true));
        assert!(fnmatch("a?c", "abc", false));
        assert!(fnmatch("[a-c]x", "bx", false));
        assert!(!fnmatch("[!a-c]x", "bx", false));
        assert!(fnmatch("a[", "a[", false));
    }
}
