//! Compare what the parser under test returns for a text with the spec-side reference parser.

use crate::json::J;
use crate::spec::{self, Failure, Spec, SpecOk};
use crate::sut::{parse_g, Parsed};
use lipe_find_parser::ast::Expression;
use lipe_find_parser::RunOptions;

pub enum Cmp {
    /// both accept with equal options and tree, or both refuse
    AgreeOk(SpecOk, RunOptions, Expression),
    AgreeErr(String, Option<Failure>),
    Skip(String),
    Bad { kind: String, what: String, detail: J },
}

pub fn options_text(o: &RunOptions) -> String {
    format!("{:?}", o)
}

/// Does the Debug rendering of the options show the number `n` as a whole token?
pub fn debug_shows_number(dbg: &str, n: u32) -> bool {
    let needle = n.to_string();
    let b = dbg.as_bytes();
    let mut i = 0;
    while let Some(p) = dbg[i..].find(&needle) {
        let s = i + p;
        let e = s + needle.len();
        let before_ok = s == 0 || !b[s - 1].is_ascii_digit();
        let after_ok = e >= b.len() || !b[e].is_ascii_digit();
        if before_ok && after_ok {
            return true;
        }
        i = s + 1;
    }
    false
}

/// And(x, True) and And(True, x) mean x (truth value, outputs and order are the same).
pub fn absorb_true(e: &Expression) -> Expression {
    use lipe_find_parser::ast::{Operator, Test};
    use std::rc::Rc;
    match e {
        Expression::Operator(op) => match op.as_ref() {
            Operator::And(a, b) => {
                let (a, b) = (absorb_true(a), absorb_true(b));
                if a == Expression::Test(Test::True) {
                    b
                } else if b == Expression::Test(Test::True) {
                    a
                } else {
                    Expression::Operator(Rc::new(Operator::And(a, b)))
                }
            }
            Operator::Or(a, b) => Expression::Operator(Rc::new(Operator::Or(absorb_true(a), absorb_true(b)))),
            Operator::List(a, b) => Expression::Operator(Rc::new(Operator::List(absorb_true(a), absorb_true(b)))),
            Operator::Not(a) => Expression::Operator(Rc::new(Operator::Not(absorb_true(a)))),
            Operator::Precedence(a) => Expression::Operator(Rc::new(Operator::Precedence(absorb_true(a)))),
        },
        other => other.clone(),
    }
}

pub fn compare(text: &str) -> Cmp {
    let (sp, failure) = spec::parse_detail(text);
    if let Spec::Unspecified(why) = &sp {
        return Cmp::Skip(why.clone());
    }
    let got: Parsed = match parse_g(text) {
        Ok(r) => r,
        Err(p) => {
            return Cmp::Bad { kind: p.sig(), what: format!("parse panicked: {}", p.0), detail: J::obj(vec![("input", J::s(text))]) };
        }
    };
    match (sp, got) {
        (Spec::Unspecified(_), _) => unreachable!(),
        (Spec::Err(why), Err(msg)) => Cmp::AgreeErr(msg, failure.or(Some(Failure::Other(why)))),
        (Spec::Err(why), Ok((opts, tree))) => {
            // a value beyond the range of its field may also be refused by compile()
            if let Some(Failure::OutOfRange(_, _)) = &failure {
                if let Ok((Err(msg), _, _)) = crate::sut::compile_g(&tree, &opts, "/dev/x") {
                    return Cmp::AgreeErr(format!("(refused by compile) {}", msg), failure);
                }
            }
            let kind = match &failure {
                Some(Failure::UnknownWord(_)) => "accepts-unknown-word".to_string(),
                Some(Failure::MissingArgument(k)) => format!("accepts-missing-argument:{}", k),
                Some(Failure::BadArgument(k, _)) => format!("accepts-bad-argument:{}", k),
                Some(Failure::OutOfRange(k, _)) => format!("accepts-bad-argument:{}", k),
                Some(Failure::Other(s)) if s == "grammar" => "accepts-nonsentence".to_string(),
                _ => "accepts-nonmember".to_string(),
            };
            // is the returned tree the tree of a proper prefix of the input?
            let mut prefix_note = String::new();
            let cs: Vec<(usize, char)> = text.char_indices().collect();
            for (bi, _) in cs.iter().rev() {
                if *bi == 0 {
                    break;
                }
                if let Spec::Ok(o) = spec::parse(&text[..*bi]) {
                    if o.tree == tree {
                        prefix_note = format!("; the tree returned is the tree of the proper prefix {:?}", &text[..*bi]);
                        break;
                    }
                }
            }
            Cmp::Bad {
                kind,
                what: format!("input must be refused ({}) but parse returned Ok{}", why, prefix_note),
                detail: J::obj(vec![("input", J::s(text)), ("returned_tree", J::s(show_tree(&tree))), ("returned_options", J::s(options_text(&opts)))]),
            }
        }
        (Spec::Ok(want), Err(msg)) => {
            if !want.depth_limits.is_empty() || want.may_refuse {
                return Cmp::AgreeErr(msg, None);
            }
            Cmp::Bad {
                kind: "rejects-member".into(),
                what: format!("input is in the language but parse returned Err: {}", msg),
                detail: J::obj(vec![("input", J::s(text)), ("expected_tree", J::s(show_tree(&want.tree)))]),
            }
        }
        (Spec::Ok(want), Ok((opts, tree))) => {
            // an option inside the expression "behaves there as -true": a tree in which that -true has
            // been absorbed by the AND it stands in means the same
            let same_modulo_true = want.inner_options && absorb_true(&tree) == absorb_true(&want.tree);
            if tree != want.tree && !same_modulo_true {
                return Cmp::Bad {
                    kind: "wrong-tree".into(),
                    what: format!("tree differs from the reference: expected {}, got {}", show_tree(&want.tree), show_tree(&tree)),
                    detail: J::obj(vec![("input", J::s(text)), ("expected_tree", J::s(show_tree(&want.tree))), ("returned_tree", J::s(show_tree(&tree)))]),
                };
            }
            if opts.depth != want.depth || opts.threads != want.threads {
                return Cmp::Bad {
                    kind: "wrong-options".into(),
                    what: format!("options differ: expected depth={} threads={:?}, got {}", want.depth, want.threads, options_text(&opts)),
                    detail: J::obj(vec![("input", J::s(text))]),
                };
            }
            let dbg = options_text(&opts);
            // only the LAST occurrence of each kind has to be carried (last occurrence wins)
            let mut last: Vec<(bool, u32)> = vec![];
            for (is_max, n) in &want.depth_limits {
                last.retain(|(m, _)| m != is_max);
                last.push((*is_max, *n));
            }
            for (is_max, n) in &last {
                if !debug_shows_number(&dbg, *n) {
                    return Cmp::Bad {
                        kind: "option-dropped".into(),
                        what: format!("{} {} accepted but the value is not carried in the returned options ({})", if *is_max { "-maxdepth" } else { "-mindepth" }, n, dbg),
                        detail: J::obj(vec![("input", J::s(text))]),
                    };
                }
            }
            Cmp::AgreeOk(want, opts, tree)
        }
    }
}

/// Debug rendering of a tree for messages. The library's `Debug` is pretty-printed with nested indentation,
/// i.e. quadratic in the depth: a chain of thousands of operands is summarised instead.
pub fn show_tree(e: &lipe_find_parser::ast::Expression) -> String {
    fn size(e: &lipe_find_parser::ast::Expression, budget: &mut i64) {
        use lipe_find_parser::ast::{Expression, Operator};
        *budget -= 1;
        if *budget < 0 {
            return;
        }
        if let Expression::Operator(op) = e {
            match op.as_ref() {
                Operator::Precedence(x) | Operator::Not(x) => size(x, budget),
                Operator::And(a, b) | Operator::Or(a, b) | Operator::List(a, b) => {
                    // iterate down the left spine, recurse into the right operand
                    size(b, budget);
                    size(a, budget);
                }
            }
        }
    }
    let mut budget = 400i64;
    size(e, &mut budget);
    if budget >= 0 {
        format!("{:?}", e)
    } else {
        fn spine(e: &lipe_find_parser::ast::Expression) -> (usize, String) {
            use lipe_find_parser::ast::{Expression, Operator};
            let mut n = 0;
            let mut cur = e;
            let mut ops = String::new();
            loop {
                match cur {
                    Expression::Operator(op) => match op.as_ref() {
                        Operator::And(a, _) => {
                            if ops.len() < 40 {
                                ops.push('A');
                            }
                            cur = a;
                        }
                        Operator::Or(a, _) => {
                            if ops.len() < 40 {
                                ops.push('O');
                            }
                            cur = a;
                        }
                        Operator::List(a, _) => {
                            if ops.len() < 40 {
                                ops.push('L');
                            }
                            cur = a;
                        }
                        Operator::Not(a) | Operator::Precedence(a) => {
                            if ops.len() < 40 {
                                ops.push('!');
                            }
                            cur = a;
                        }
                    },
                    _ => break,
                }
                n += 1;
            }
            (n, ops)
        }
        let (n, ops) = spine(e);
        format!("<tree of more than 400 nodes; left spine of {} operators starting {}...>", n, ops)
    }
}
