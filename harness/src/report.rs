//! What a monitor run reports; merged across worker threads and written as one JSON document for
//! the python driver (which applies known-findings, writes evidence and prints verdict lines).

use crate::json::J;
use crate::rng::hash_str;
use std::collections::{BTreeMap, HashSet};

#[derive(Clone, Debug)]
pub struct Violation {
    /// Stable signature of the failure mode (what known_findings.json is keyed on).
    pub sig: String,
    pub what: String,
    /// "<stream>:<index>" - enough to regenerate the case with the same seed and tier.
    pub case: String,
    pub detail: J,
}

#[derive(Default)]
pub struct Report {
    pub evaluations: u64,
    pub nontrivial: HashSet<u64>,
    pub samples: Vec<J>,
    pub violations: Vec<Violation>,
    pub violation_counts: BTreeMap<String, u64>,
    pub skipped_unspecified: u64,
    pub inconclusive: Vec<String>,
    pub counters: BTreeMap<String, u64>,
    pub sets: BTreeMap<String, HashSet<u64>>,
    pub maxes: BTreeMap<String, u64>,
    pub extra: Vec<(String, J)>,
    pub exhaustive: Option<bool>,
    pub floors: Vec<(String, bool)>,
}

pub const MAX_VIOLATIONS_PER_SIG: u64 = 3;
pub const MAX_SAMPLES: usize = 8;

impl Report {
    pub fn new() -> Report {
        Report::default()
    }
    pub fn count(&mut self, key: &str) {
        *self.counters.entry(key.to_string()).or_insert(0) += 1;
    }
    pub fn add(&mut self, key: &str, n: u64) {
        *self.counters.entry(key.to_string()).or_insert(0) += n;
    }
    pub fn max(&mut self, key: &str, v: u64) {
        let e = self.maxes.entry(key.to_string()).or_insert(0);
        if v > *e {
            *e = v;
        }
    }
    pub fn get_max(&self, key: &str) -> u64 {
        self.maxes.get(key).copied().unwrap_or(0)
    }
    pub fn get(&self, key: &str) -> u64 {
        self.counters.get(key).copied().unwrap_or(0)
    }
    pub fn distinct(&mut self, set: &str, item: &str) {
        self.sets.entry(set.to_string()).or_default().insert(hash_str(item));
    }
    pub fn nontrivial(&mut self, item: &str) {
        self.nontrivial.insert(hash_str(item));
    }
    pub fn sample(&mut self, j: J) {
        if self.samples.len() < MAX_SAMPLES {
            self.samples.push(j);
        }
    }
    pub fn violation(&mut self, sig: &str, what: &str, case: &str, detail: J) {
        // the model runtime met a standard procedure it does not implement: undecided, not violated
        const MODEL_LIMIT_TEXTS: [&str; 6] =
            ["the model runtime does not implement", "not supported by the model", "too large for the model", "MODEL-OVERFLOW", "model step budget", "unsupported # syntax"];
        if sig.contains("model-lacks") || MODEL_LIMIT_TEXTS.iter().any(|t| what.contains(t)) {
            if self.inconclusive.len() < 5 {
                self.inconclusive.push(format!("{} ({})", what.chars().take(200).collect::<String>(), case));
            }
            return;
        }
        let c = self.violation_counts.entry(sig.to_string()).or_insert(0);
        *c += 1;
        if *c <= MAX_VIOLATIONS_PER_SIG {
            // witnesses of very long inputs stay readable and small: the replay regenerates the case anyway
            fn clip(s: &str, max: usize) -> String {
                if s.chars().count() <= max {
                    s.to_string()
                } else {
                    format!("{} ... [{} characters]", s.chars().take(max).collect::<String>(), s.chars().count())
                }
            }
            fn clip_j(j: J) -> J {
                match j {
                    J::Str(s) => J::Str(clip(&s, 8000)),
                    J::Arr(v) => J::Arr(v.into_iter().map(clip_j).collect()),
                    J::Obj(v) => J::Obj(v.into_iter().map(|(k, x)| (k, clip_j(x))).collect()),
                    other => other,
                }
            }
            self.violations.push(Violation { sig: sig.to_string(), what: clip(what, 4000), case: case.to_string(), detail: clip_j(detail) });
        }
    }
    pub fn floor(&mut self, name: &str, ok: bool) {
        self.floors.push((name.to_string(), ok));
    }
    pub fn merge(&mut self, o: Report) {
        self.evaluations += o.evaluations;
        self.nontrivial.extend(o.nontrivial);
        for s in o.samples {
            self.sample(s);
        }
        for (k, v) in o.violation_counts {
            *self.violation_counts.entry(k).or_insert(0) += v;
        }
        for v in o.violations {
            let have = self.violations.iter().filter(|x| x.sig == v.sig).count() as u64;
            if have < MAX_VIOLATIONS_PER_SIG {
                self.violations.push(v);
            }
        }
        self.skipped_unspecified += o.skipped_unspecified;
        self.inconclusive.extend(o.inconclusive);
        for (k, v) in o.counters {
            *self.counters.entry(k).or_insert(0) += v;
        }
        for (k, v) in o.maxes {
            self.max(&k, v);
        }
        for (k, v) in o.sets {
            self.sets.entry(k).or_default().extend(v);
        }
        self.extra.extend(o.extra);
        if let Some(e) = o.exhaustive {
            self.exhaustive = Some(self.exhaustive.unwrap_or(true) && e);
        }
        self.floors.extend(o.floors);
    }
    pub fn to_json(&self, id: &str, tier: &str, seed: u64, profile: &str, wall_s: f64) -> J {
        let mut counters = vec![];
        for (k, v) in &self.counters {
            counters.push((k.clone(), J::Int(*v as i128)));
        }
        for (k, v) in &self.maxes {
            counters.push((k.clone(), J::Int(*v as i128)));
        }
        for (k, v) in &self.sets {
            counters.push((format!("distinct_{}", k), J::Int(v.len() as i128)));
        }
        let viol: Vec<J> = self
            .violations
            .iter()
            .map(|v| {
                J::obj(vec![
                    ("sig", J::s(&v.sig)),
                    ("what", J::s(&v.what)),
                    ("case", J::s(&v.case)),
                    ("count", J::Int(*self.violation_counts.get(&v.sig).unwrap_or(&1) as i128)),
                    ("detail", v.detail.clone()),
                ])
            })
            .collect();
        let mut o = J::obj(vec![
            ("property_id", J::s(id)),
            ("tier", J::s(tier)),
            ("seed", J::Int(seed as i128)),
            ("profile", J::s(profile)),
            ("evaluations", J::Int(self.evaluations as i128)),
            ("distinct_nontrivial", J::Int(self.nontrivial.len() as i128 + self.get("nontrivial_by_construction") as i128)),
            ("samples", J::Arr(self.samples.clone())),
            ("violations", J::Arr(viol)),
            ("violation_total", J::Int(self.violation_counts.values().sum::<u64>() as i128)),
            ("skipped_unspecified", J::Int(self.skipped_unspecified as i128)),
            ("inconclusive", J::Arr(self.inconclusive.iter().map(J::s).collect())),
            ("counters", J::Obj(counters)),
            ("floors", J::Arr(self.floors.iter().map(|(n, ok)| J::obj(vec![("name", J::s(n)), ("ok", J::Bool(*ok))])).collect())),
            ("wall_s", J::Num(wall_s)),
        ]);
        if let Some(e) = self.exhaustive {
            o.push("exhaustive", J::Bool(e));
        }
        for (k, v) in &self.extra {
            o.push(k, v.clone());
        }
        o
    }
}

#[derive(Clone, Debug)]
pub struct Ctx {
    pub tier_thorough: bool,
    pub seed: u64,
    pub threads: usize,
    pub only: Option<(String, u64)>,
    pub scale: f64,
    /// restrict one stream to [a, b) and skip all others (bisection of aborts / hangs)
    pub range: Option<(String, u64, u64)>,
    /// C03 only: if one case runs longer than this many seconds the process prints
    /// `HANG <stream>:<index>` and exits with code 97 (the supervisor then re-runs that input alone)
    pub hang_secs: Option<u64>,
}

impl Ctx {
    pub fn pick(&self, quick: u64, thorough: u64) -> u64 {
        let base = if self.tier_thorough { thorough } else { quick };
        ((base as f64) * self.scale).max(1.0) as u64
    }
    pub fn wants(&self, stream: &str) -> bool {
        match &self.only {
            None => true,
            Some((s, _)) => s == stream,
        }
    }
}

/// Run `f(index, report)` for index in 0..n on `ctx.threads` worker threads (index mod threads).
/// With `ctx.only = Some((stream, i))` only that index of that stream runs.
pub fn par_cases<F>(ctx: &Ctx, stream: &str, n: u64, rep: &mut Report, f: F)
where
    F: Fn(u64, &mut Report) + Sync,
{
    if let Some((s, i)) = &ctx.only {
        if s == stream {
            f(*i, rep);
        }
        return;
    }
    let (lo, hi) = match &ctx.range {
        Some((s, a, b)) => {
            if s != stream {
                return;
            }
            (*a, (*b).min(n))
        }
        None => (0, n),
    };
    let n = hi;
    let threads = ctx.threads.max(1) as u64;
    // per worker: (case index + 1, or 0 when idle; start time in ms since `t0`)
    let slots: Vec<(std::sync::atomic::AtomicU64, std::sync::atomic::AtomicU64)> = (0..threads).map(|_| (std::sync::atomic::AtomicU64::new(0), std::sync::atomic::AtomicU64::new(0))).collect();
    let t0 = std::time::Instant::now();
    let done = std::sync::atomic::AtomicBool::new(false);
    let reports: Vec<Report> = std::thread::scope(|sc| {
        if let Some(limit) = ctx.hang_secs {
            let slots = &slots;
            let done = &done;
            let stream = stream.to_string();
            sc.spawn(move || {
                use std::sync::atomic::Ordering;
                while !done.load(Ordering::Relaxed) {
                    std::thread::sleep(std::time::Duration::from_millis(250));
                    let now = t0.elapsed().as_millis() as u64;
                    for (case, start) in slots.iter() {
                        let c = case.load(Ordering::Relaxed);
                        let s = start.load(Ordering::Relaxed);
                        if c != 0 && now.saturating_sub(s) > limit * 1000 && case.load(Ordering::Relaxed) == c {
                            println!("HANG {}:{}", stream, c - 1);
                            std::process::exit(97);
                        }
                    }
                }
            });
        }
        let mut hs = vec![];
        for t in 0..threads {
            let f = &f;
            let slot = &slots[t as usize];
            hs.push(
                std::thread::Builder::new()
                    .stack_size(64 << 20)
                    .spawn_scoped(sc, move || {
                        let mut r = Report::new();
                        let mut i = lo + t;
                        while i < n {
                            slot.1.store(t0.elapsed().as_millis() as u64, std::sync::atomic::Ordering::Relaxed);
                            slot.0.store(i + 1, std::sync::atomic::Ordering::Relaxed);
                            f(i, &mut r);
                            slot.0.store(0, std::sync::atomic::Ordering::Relaxed);
                            i += threads;
                        }
                        r
                    })
                    .unwrap(),
            );
        }
        let out = hs.into_iter().map(|h| h.join().expect("worker thread panicked (harness bug)")).collect();
        done.store(true, std::sync::atomic::Ordering::Relaxed);
        out
    });
    for r in reports {
        rep.merge(r);
    }
}
