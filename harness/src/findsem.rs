//! Reference evaluator: what an expression tree means on a file record by find's rules
//! (DESIGN.md Appendix B). Written from find(1) and the project's documentation, never from the
//! code generator. Returns `None` ("not defined / unspecified corner") where the documents do not
//! settle the meaning.

use crate::eval::{merge_outs, Dest, Outcome};
use crate::fnmatch::{fnmatch, has_glob, streq};
use crate::rec::{FileRecord, S_IFMT};
use lipe_find_parser::ast::*;

pub const UNITS_SIZE: [(&str, u64); 7] = [("c", 1), ("w", 2), ("b", 512), ("k", 1 << 10), ("M", 1 << 20), ("G", 1 << 30), ("T", 1 << 40)];

pub fn size_parts(s: &Size) -> (u64, u64) {
    match s {
        Size::Byte(n) => (*n, 1),
        Size::Word(n) => (*n, 2),
        Size::Block(n) => (*n, 512),
        Size::KiloByte(n) => (*n, 1 << 10),
        Size::MegaByte(n) => (*n, 1 << 20),
        Size::GigaByte(n) => (*n, 1 << 30),
        Size::TeraByte(n) => (*n, 1 << 40),
    }
}

pub fn time_parts(t: &TimeSpec) -> (u64, u64) {
    match t {
        TimeSpec::Second(n) => (*n, 1),
        TimeSpec::Minute(n) => (*n, 60),
        TimeSpec::Hour(n) => (*n, 3600),
        TimeSpec::Day(n) => (*n, 86400),
    }
}

fn cmp_i<T>(c: &Comparison<T>, field: i128, get: impl Fn(&T) -> i128) -> bool {
    match c {
        Comparison::GreaterThan(n) => field > get(n),
        Comparison::LesserThan(n) => field < get(n),
        Comparison::Equal(n) => field == get(n),
    }
}

fn cmp_inner<T>(c: &Comparison<T>) -> &T {
    match c {
        Comparison::GreaterThan(n) | Comparison::LesserThan(n) | Comparison::Equal(n) => n,
    }
}

pub fn type_bits(t: &FileType) -> u32 {
    match t {
        FileType::Block => 0o060000,
        FileType::Character => 0o020000,
        FileType::Directory => 0o040000,
        FileType::Pipe => 0o010000,
        FileType::File => 0o100000,
        FileType::Link => 0o120000,
        FileType::Socket => 0o140000,
    }
}

#[derive(Clone, Debug, PartialEq)]
pub enum Undefined {
    FutureTimestamp,
    SparsenessOfEmpty,
    Unsupported(String),
    Other(String),
}

/// Documented alternative readings the reference accepts (DESIGN.md Appendix B): the policy must
/// follow ONE reading consistently on every record of a program.
#[derive(Clone, Copy, Debug, Default, PartialEq)]
pub struct RefMode {
    /// `%a %c %t`: 0 = decimal seconds (what the snapshots show), 1.. = the C ctime format through strftime
    pub ctime_style: u8,
    /// `%h`: dirname of the absolute path instead of the relative one
    pub h_abs: bool,
    /// minute-unit time tests: age rounded up to whole minutes (GNU find's window) instead of down
    pub min_ceil: bool,
    /// a pattern with a backslash and no `*?[`: matched by fnmatch (the backslash quotes, as find
    /// does) instead of compared as a string
    pub bs_fnmatch: bool,
}

pub const CTIME_FORMATS: [&str; 3] = ["%c", "%a %b %e %H:%M:%S %Y", "%a %b %d %H:%M:%S %Y"];

impl RefMode {
    /// The readings worth trying for a tree (default first).
    pub fn candidates(e: &Expression) -> Vec<RefMode> {
        let mut ts = vec![];
        let mut av = vec![];
        tests(e, &mut ts);
        actions(e, &mut av);
        let has_min = ts.iter().any(|t| matches!(t, Test::AccessTime(c) | Test::ChangeTime(c) | Test::ModifyTime(c) if matches!(cmp_inner(c), TimeSpec::Minute(_))));
        let has_bs = ts.iter().any(|t| match t {
            Test::Name(s) | Test::InsensitiveName(s) | Test::Path(s) | Test::InsensitivePath(s) => s.contains('\\') && !has_glob(s),
            Test::XattrMatch(n, v) => (n.contains('\\') && !has_glob(n)) || (v.contains('\\') && !has_glob(v)),
            _ => false,
        });
        let mut has_ct = false;
        let mut has_h = false;
        for a in av {
            if let Action::PrintFormatted(f) | Action::FilePrintFormatted(_, f) = a {
                for el in f {
                    match el {
                        FormatElement::Field(FormatField::Access | FormatField::Change | FormatField::Modify) => has_ct = true,
                        FormatElement::Field(FormatField::Parents) => has_h = true,
                        _ => {}
                    }
                }
            }
        }
        let mut out = vec![];
        for ct in 0..=(if has_ct { CTIME_FORMATS.len() as u8 } else { 0 }) {
            for h in 0..=(has_h as u8) {
                for m in 0..=(has_min as u8) {
                    for b in 0..=(has_bs as u8) {
                        out.push(RefMode { ctime_style: ct, h_abs: h == 1, min_ceil: m == 1, bs_fnmatch: b == 1 });
                    }
                }
            }
        }
        out
    }
}

pub struct Ctx<'a> {
    pub rec: &'a FileRecord,
    pub mode: RefMode,
    pub now: i128,
    pub outs: Vec<(Dest, String)>,
    pub stop: bool,
}

fn name_match(pat: &str, subject: &str, ci: bool, mode: RefMode) -> bool {
    if has_glob(pat) || (mode.bs_fnmatch && pat.contains('\\')) {
        fnmatch(pat, subject, ci)
    } else {
        streq(pat, subject, ci)
    }
}

fn time_test(c: &Comparison<TimeSpec>, t: i128, now: i128, mode: RefMode) -> Result<bool, Undefined> {
    if t > now {
        return Err(Undefined::FutureTimestamp);
    }
    let (_, unit) = time_parts(cmp_inner(c));
    let mut age_units = (now - t) / unit as i128;
    if mode.min_ceil && unit == 60 {
        age_units = (now - t + 59) / 60;
    }
    Ok(cmp_i(c, age_units, |ts| time_parts(ts).0 as i128))
}

pub fn render_field(f: &FormatField, r: &FileRecord, mode: RefMode) -> Result<String, Undefined> {
    let ct = |t: i128| {
        if mode.ctime_style == 0 {
            t.to_string()
        } else {
            format!("<strftime:{}:{}>", CTIME_FORMATS[(mode.ctime_style - 1) as usize], t)
        }
    };
    Ok(match f {
        FormatField::Percent => "%".to_string(),
        FormatField::Access => ct(r.atime),
        FormatField::Change => ct(r.ctime),
        FormatField::Modify => ct(r.mtime),
        FormatField::AccessFormatted('@') => r.atime.to_string(),
        FormatField::ChangeFormatted('@') => r.ctime.to_string(),
        FormatField::ModifyFormatted('@') => r.mtime.to_string(),
        FormatField::AccessFormatted(k) => format!("<strftime:%{}:{}>", k, r.atime),
        FormatField::ChangeFormatted(k) => format!("<strftime:%{}:{}>", k, r.ctime),
        FormatField::ModifyFormatted(k) => format!("<strftime:%{}:{}>", k, r.mtime),
        FormatField::DiskSizeBlocks => r.blocks.to_string(),
        FormatField::DiskSizeKilos => ((r.blocks as u128 + 1) / 2).to_string(), // u128: blocks may be u64::MAX in a coincidence record
        FormatField::DiskSizeBytes => r.size.to_string(),
        FormatField::Basename => r.name().to_string(),
        FormatField::Group => r.group.clone(),
        FormatField::GroupId => r.gid.to_string(),
        FormatField::User => r.user.clone(),
        FormatField::UserId => r.uid.to_string(),
        FormatField::Parents => {
            if mode.h_abs {
                let a = r.abspath();
                match a.rfind('/') {
                    Some(0) => "/".to_string(),
                    Some(i) => a[..i].to_string(),
                    None => ".".to_string(),
                }
            } else {
                r.dirname()
            }
        }
        FormatField::StartingPoint => r.mount.clone(),
        FormatField::InodeDecimal => r.ino.to_string(),
        FormatField::PermissionsOctal => format!("{:o}", r.mode & 0o7777),
        FormatField::Hardlinks => r.nlink.to_string(),
        FormatField::Name => r.abspath(),
        FormatField::NameWithoutStartingPoint => r.relpath.clone(),
        FormatField::Sparseness => {
            if r.size == 0 {
                return Err(Undefined::SparsenessOfEmpty);
            }
            let n = 512i128 * r.blocks as i128;
            let d = r.size as i128;
            let g = gcd(n, d);
            if d / g == 1 {
                format!("{}.0", n / g)
            } else {
                format!("<real:{}/{}>", n / g, d / g)
            }
        }
        FormatField::Type => r.type_char().to_string(),
        FormatField::FileId => r.fid.clone(),
        FormatField::ProjectId => r.projid.to_string(),
        FormatField::MirrorCount => r.mirror_count.to_string(),
        FormatField::StripeCount => r.stripe_count.to_string(),
        FormatField::StripeSize => r.stripe_size.to_string(),
        FormatField::XAttr(n) => r.xattrs.iter().find(|(k, _)| k == n).map(|(_, v)| v.clone()).unwrap_or_default(),
        FormatField::Depth
        | FormatField::DeviceNumber
        | FormatField::FsType
        | FormatField::SymbolicTarget
        | FormatField::PermissionsSymbolic
        | FormatField::TypeSymlink
        | FormatField::SecurityContext => return Err(Undefined::Unsupported(format!("{:?}", f))),
    })
}

fn gcd(a: i128, b: i128) -> i128 {
    if b == 0 {
        a.abs()
    } else {
        gcd(b, a % b)
    }
}

pub fn render_special(s: &FormatSpecial) -> Result<String, Undefined> {
    Ok(match s {
        FormatSpecial::Alarm => "\x07".into(),
        FormatSpecial::Backspace => "\x08".into(),
        FormatSpecial::Clear => return Err(Undefined::Unsupported("Clear".into())),
        FormatSpecial::Form => "\x0c".into(),
        FormatSpecial::Newline => "\n".into(),
        FormatSpecial::CarriageReturn => "\r".into(),
        FormatSpecial::TabHorizontal => "\t".into(),
        FormatSpecial::TabVertical => "\x0b".into(),
        FormatSpecial::Null => "\0".into(),
        FormatSpecial::Backslash => "\\".into(),
        FormatSpecial::Ascii(v) => match char::from_u32(*v as u32) {
            // one character with that code (Latin-1 reading of a byte value); above 0377 it is no byte
            Some(c) if *v <= 0o377 => c.to_string(),
            _ => return Err(Undefined::Other("octal escape above 0377: not a byte value, unspecified".into())),
        },
    })
}

pub fn render_format(fmt: &[FormatElement], r: &FileRecord) -> Result<String, Undefined> {
    render_format_mode(fmt, r, RefMode::default())
}

pub fn render_format_mode(fmt: &[FormatElement], r: &FileRecord, mode: RefMode) -> Result<String, Undefined> {
    let mut out = String::new();
    for el in fmt {
        match el {
            FormatElement::Literal(s) => out.push_str(s),
            FormatElement::Field(f) => out.push_str(&render_field(f, r, mode)?),
            FormatElement::Special(s) => out.push_str(&render_special(s)?),
        }
    }
    Ok(out)
}

pub fn eval_test(t: &Test, c: &Ctx) -> Result<bool, Undefined> {
    let r = c.rec;
    Ok(match t {
        Test::AccessTime(cmp) => time_test(cmp, r.atime, c.now, c.mode)?,
        Test::ChangeTime(cmp) => time_test(cmp, r.ctime, c.now, c.mode)?,
        Test::ModifyTime(cmp) => time_test(cmp, r.mtime, c.now, c.mode)?,
        Test::Empty => r.empty,
        Test::Executable => r.executable,
        Test::Readable => r.readable,
        Test::Writable => r.writable,
        Test::False => false,
        Test::True => true,
        Test::GroupId(cmp) => cmp_i(cmp, r.gid as i128, |n| *n as i128),
        Test::UserId(cmp) => cmp_i(cmp, r.uid as i128, |n| *n as i128),
        Test::InodeNumber(cmp) => cmp_i(cmp, r.ino as i128, |n| *n as i128),
        Test::Links(cmp) => cmp_i(cmp, r.nlink as i128, |n| *n as i128),
        Test::MirrorCount(cmp) => cmp_i(cmp, r.mirror_count as i128, |n| *n as i128),
        Test::StripeCount(cmp) => cmp_i(cmp, r.stripe_count as i128, |n| *n as i128),
        Test::Size(cmp) => {
            let (_, unit) = size_parts(cmp_inner(cmp));
            let units = (r.size as i128 + unit as i128 - 1) / unit as i128;
            cmp_i(cmp, units, |s| size_parts(s).0 as i128)
        }
        Test::Type(list) => list.iter().any(|ft| (r.mode & S_IFMT) == type_bits(ft)),
        Test::Perm(PermCheck::Equal(p)) => (r.mode & 0o7777) == p.0.bits(),
        Test::Perm(PermCheck::AtLeast(p)) => (r.mode & p.0.bits()) == p.0.bits(),
        Test::Perm(PermCheck::Any(p)) => (r.mode & p.0.bits()) != 0,
        Test::Name(s) => name_match(s, r.name(), false, c.mode),
        Test::InsensitiveName(s) => name_match(s, r.name(), true, c.mode),
        Test::Path(s) => name_match(s, &r.relpath, false, c.mode),
        Test::InsensitivePath(s) => name_match(s, &r.relpath, true, c.mode),
        Test::Pool(s) => r.pools.iter().any(|p| p == s),
        Test::Xattr(n) => r.xattrs.iter().any(|(k, _)| k == n),
        Test::XattrMatch(n, v) => r.xattrs.iter().any(|(k, w)| name_match(n, k, false, c.mode) && name_match(v, w, false, c.mode)),
        other => return Err(Undefined::Unsupported(format!("{:?}", other))),
    })
}

#[allow(deprecated)]
pub fn eval_action(a: &Action, c: &mut Ctx) -> Result<bool, Undefined> {
    let r = c.rec;
    match a {
        Action::Print | Action::DefaultPrint => c.outs.push((Dest::Stdout, format!("{}\n", r.relpath))),
        Action::PrintNull => c.outs.push((Dest::Stdout, format!("{}\0", r.relpath))),
        Action::FilePrint(f) => c.outs.push((Dest::File(f.clone()), format!("{}\n", r.relpath))),
        Action::FilePrintNull(f) => c.outs.push((Dest::File(f.clone()), format!("{}\0", r.relpath))),
        Action::PrintFormatted(fmt) => {
            let s = render_format_mode(fmt, r, c.mode)?;
            c.outs.push((Dest::Stdout, s))
        }
        Action::FilePrintFormatted(f, fmt) => {
            let s = render_format_mode(fmt, r, c.mode)?;
            c.outs.push((Dest::File(f.clone()), s))
        }
        Action::PrintFid => c.outs.push((Dest::Stdout, format!("{}\n", r.fid))),
        Action::Quit => c.stop = true,
        other => return Err(Undefined::Unsupported(format!("{:?}", other))),
    }
    Ok(true)
}

pub fn eval_expr(e: &Expression, c: &mut Ctx) -> Result<bool, Undefined> {
    match e {
        Expression::Test(t) => eval_test(t, c),
        Expression::Action(a) => eval_action(a, c),
        Expression::Operator(op) => match op.as_ref() {
            Operator::Precedence(x) => eval_expr(x, c),
            Operator::Not(x) => Ok(!eval_expr(x, c)?),
            Operator::And(a, b) | Operator::List(a, b) => {
                if !eval_expr(a, c)? {
                    return Ok(false);
                }
                eval_expr(b, c)
            }
            Operator::Or(a, b) => {
                if eval_expr(a, c)? {
                    return Ok(true);
                }
                eval_expr(b, c)
            }
        },
        Expression::Global(g) => Err(Undefined::Unsupported(format!("{:?}", g))),
        Expression::Positional(p) => Err(Undefined::Unsupported(format!("{:?}", p))),
    }
}

/// Own fold: is there an action node anywhere (reference for the implicit-print rule).
pub fn has_action(e: &Expression) -> bool {
    match e {
        Expression::Action(_) => true,
        Expression::Operator(op) => match op.as_ref() {
            Operator::Precedence(x) | Operator::Not(x) => has_action(x),
            Operator::And(a, b) | Operator::Or(a, b) | Operator::List(a, b) => has_action(a) | has_action(b),
        },
        _ => false,
    }
}

/// Full reference meaning of compiling-and-running `e` on `rec`, including the implicit print.
pub fn reference(e: &Expression, rec: &FileRecord, now: i128) -> Result<Outcome, Undefined> {
    reference_mode(e, rec, now, RefMode::default())
}

pub fn reference_mode(e: &Expression, rec: &FileRecord, now: i128, mode: RefMode) -> Result<Outcome, Undefined> {
    let mut c = Ctx { rec, mode, now, outs: vec![], stop: false };
    let mut truth = eval_expr(e, &mut c)?;
    if !has_action(e) && truth {
        c.outs.push((Dest::Stdout, format!("{}\n", rec.relpath)));
        truth = true;
    }
    Ok(Outcome { truth, outs: merge_outs(c.outs), stop: c.stop })
}

/// All actions in evaluation order (own fold).
pub fn actions<'a>(e: &'a Expression, out: &mut Vec<&'a Action>) {
    match e {
        Expression::Action(a) => out.push(a),
        Expression::Operator(op) => match op.as_ref() {
            Operator::Precedence(x) | Operator::Not(x) => actions(x, out),
            Operator::And(a, b) | Operator::Or(a, b) | Operator::List(a, b) => {
                actions(a, out);
                actions(b, out);
            }
        },
        _ => {}
    }
}

pub fn tests<'a>(e: &'a Expression, out: &mut Vec<&'a Test>) {
    match e {
        Expression::Test(t) => out.push(t),
        Expression::Operator(op) => match op.as_ref() {
            Operator::Precedence(x) | Operator::Not(x) => tests(x, out),
            Operator::And(a, b) | Operator::Or(a, b) | Operator::List(a, b) => {
                tests(a, out);
                tests(b, out);
            }
        },
        _ => {}
    }
}

/// Spec-side mode rule (C10/C19): framed iff some action writes to a file, is NUL-terminated, or is
/// a formatted print whose last element exists and is not the newline escape.
pub fn needs_frames(e: &Expression) -> bool {
    let mut v = vec![];
    actions(e, &mut v);
    v.iter().any(|a| match a {
        Action::PrintNull | Action::FileList(_) | Action::FilePrint(_) | Action::FilePrintNull(_) | Action::FilePrintFormatted(_, _) => true,
        Action::PrintFormatted(f) => match f.last() {
            Some(FormatElement::Special(FormatSpecial::Newline)) => false,
            Some(_) => true,
            None => false,
        },
        _ => false,
    })
}

/// Which constructs the target cannot express (spec-side partition, C12).
pub fn unsupported_test(t: &Test) -> Option<&'static str> {
    Some(match t {
        Test::AccessNewer(_) => "AccessNewer",
        Test::ChangeNewer(_) => "ChangeNewer",
        Test::FsType(_) => "FsType",
        Test::Group(_) => "Group",
        Test::InsensitiveLinkName(_) => "InsensitiveLinkName",
        Test::InsensitiveRegex(_) => "InsensitiveRegex",
        Test::LinkName(_) => "LinkName",
        Test::ModifyNewer(_) => "ModifyNewer",
        Test::NoGroup => "NoGroup",
        Test::NoUser => "NoUser",
        Test::Regex(_) => "Regex",
        Test::Samefile(_) => "Samefile",
        Test::User(_) => "User",
        _ => return None,
    })
}

pub fn unsupported_field(f: &FormatField) -> Option<&'static str> {
    Some(match f {
        FormatField::Depth => "Depth",
        FormatField::DeviceNumber => "DeviceNumber",
        FormatField::FsType => "FsType",
        FormatField::SymbolicTarget => "SymbolicTarget",
        FormatField::PermissionsSymbolic => "PermissionsSymbolic",
        FormatField::TypeSymlink => "TypeSymlink",
        FormatField::SecurityContext => "SecurityContext",
        _ => return None,
    })
}

/// Un-merged outputs (one entry per action execution) - the "whole records" of C16.
pub fn reference_raw(e: &Expression, rec: &FileRecord, now: i128) -> Result<Vec<(Dest, String)>, Undefined> {
    let mut c = Ctx { rec, mode: RefMode::default(), now, outs: vec![], stop: false };
    let truth = eval_expr(e, &mut c)?;
    if !has_action(e) && truth {
        c.outs.push((Dest::Stdout, format!("{}\n", rec.relpath)));
    }
    Ok(c.outs)
}
