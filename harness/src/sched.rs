//! Scheduler for the emitted policy's atomic steps (lock, write, unlock) on logical scanner threads,
//! with the monitors of C16: lockset (Eraser), stream decoder at quiescence, deadlock detector.

use crate::eval::{Dest, Step, StepKind};
use crate::rng::Rng;
use std::collections::{HashMap, HashSet};

pub struct Config {
    /// per thread: its steps in program order
    pub threads: Vec<Vec<StepKind>>,
    /// per thread: the whole records it must have emitted, in order (destination, bytes)
    pub expected: Vec<Vec<(Dest, String)>>,
    pub n_ports: usize,
    pub n_mutex: usize,
    /// port index -> destination
    pub port_dest: Vec<Dest>,
    /// framed mode: tag -> (destination, terminator)
    pub table: Option<HashMap<u32, (Dest, Option<char>)>>,
}

#[derive(Debug, Clone, PartialEq)]
pub enum Bad {
    Lockset { port: usize, detail: String },
    Torn { detail: String, trace: Vec<usize> },
    Deadlock { detail: String, trace: Vec<usize> },
}

/// Per-thread step lists. A `display` issued while the thread holds **no** mutex at all is not an atom:
/// Guile's ports are not thread-safe (which is why the generated code carries mutexes), so two such calls
/// on one port can interleave below the call. It is modelled as two writes (first half, second half of the
/// text) between which other threads may run; a write under any mutex stays one step.
pub fn build_threads(steps_per_record: &[Vec<Step>], assign: &[usize], n_threads: usize) -> Vec<Vec<StepKind>> {
    let mut t = vec![vec![]; n_threads];
    let mut held = vec![0usize; n_threads];
    for (i, steps) in steps_per_record.iter().enumerate() {
        let th = assign[i];
        for s in steps {
            match &s.kind {
                StepKind::Lock(_) => held[th] += 1,
                StepKind::Unlock(_) => held[th] = held[th].saturating_sub(1),
                StepKind::Write(p, text) if held[th] == 0 && text.chars().count() >= 2 => {
                    let cs: Vec<char> = text.chars().collect();
                    let mid = cs.len() / 2;
                    t[th].push(StepKind::Write(*p, cs[..mid].iter().collect()));
                    t[th].push(StepKind::Write(*p, cs[mid..].iter().collect()));
                    continue;
                }
                _ => {}
            }
            t[th].push(s.kind.clone());
        }
    }
    t
}

/// Eraser-style lockset check; schedule independent (locksets are thread-local facts).
pub fn lockset(cfg: &Config) -> Option<Bad> {
    let mut per_port: HashMap<usize, (HashSet<usize>, Option<HashSet<usize>>)> = HashMap::new(); // port -> (threads, intersection)
    for (ti, steps) in cfg.threads.iter().enumerate() {
        let mut held: HashSet<usize> = HashSet::new();
        for s in steps {
            match s {
                StepKind::Lock(m) => {
                    held.insert(*m);
                }
                StepKind::Unlock(m) => {
                    held.remove(m);
                }
                StepKind::Write(p, _) => {
                    let e = per_port.entry(*p).or_insert((HashSet::new(), None));
                    e.0.insert(ti);
                    e.1 = Some(match &e.1 {
                        None => held.clone(),
                        Some(prev) => prev.intersection(&held).copied().collect(),
                    });
                }
            }
        }
    }
    for (p, (threads, inter)) in per_port {
        if threads.len() > 1 && inter.map_or(true, |s| s.is_empty()) {
            return Some(Bad::Lockset { port: p, detail: format!("port {} ({:?}) is written by {} threads with no common mutex held at every write", p, cfg.port_dest[p], threads.len()) });
        }
    }
    None
}

struct State {
    pc: Vec<usize>,
    owner: Vec<Option<usize>>,
    ports: Vec<String>,
}

/// Can `stream` be split into whole expected records, per-thread order preserved?
fn is_merge(units: &[(Dest, String)], expected: &[Vec<(Dest, String)>]) -> bool {
    fn go(units: &[(Dest, String)], pos: usize, idx: &mut Vec<usize>, expected: &[Vec<(Dest, String)>], memo: &mut HashSet<Vec<usize>>) -> bool {
        if pos == units.len() {
            return idx.iter().enumerate().all(|(t, i)| *i == expected[t].len());
        }
        if !memo.insert(idx.clone()) {
            return false;
        }
        for t in 0..expected.len() {
            if idx[t] < expected[t].len() && expected[t][idx[t]] == units[pos] {
                idx[t] += 1;
                if go(units, pos + 1, idx, expected, memo) {
                    return true;
                }
                idx[t] -= 1;
            }
        }
        false
    }
    let mut idx = vec![0; expected.len()];
    go(units, 0, &mut idx, expected, &mut HashSet::new())
}

/// Plain mode: split a port's stream into whole expected records of that destination.
fn plain_stream_ok(stream: &str, dest: &Dest, expected: &[Vec<(Dest, String)>]) -> bool {
    let exp: Vec<Vec<&str>> = expected.iter().map(|v| v.iter().filter(|(d, _)| d == dest).map(|(_, s)| s.as_str()).collect()).collect();
    fn go(stream: &str, pos: usize, idx: &mut Vec<usize>, exp: &[Vec<&str>], memo: &mut HashSet<(usize, Vec<usize>)>) -> bool {
        if pos == stream.len() {
            return idx.iter().enumerate().all(|(t, i)| *i == exp[t].len());
        }
        if !memo.insert((pos, idx.clone())) {
            return false;
        }
        for t in 0..exp.len() {
            if idx[t] < exp[t].len() {
                let u = exp[t][idx[t]];
                if !u.is_empty() && stream[pos..].starts_with(u) {
                    idx[t] += 1;
                    if go(stream, pos + u.len(), idx, exp, memo) {
                        return true;
                    }
                    idx[t] -= 1;
                } else if u.is_empty() {
                    idx[t] += 1;
                    if go(stream, pos, idx, exp, memo) {
                        return true;
                    }
                    idx[t] -= 1;
                }
            }
        }
        false
    }
    let mut idx = vec![0; exp.len()];
    go(stream, 0, &mut idx, &exp, &mut HashSet::new())
}

fn check_quiescent(cfg: &Config, st: &State) -> Option<String> {
    match &cfg.table {
        Some(table) => {
            for (p, data) in st.ports.iter().enumerate() {
                if p != 0 && !data.is_empty() {
                    return Some(format!("framed mode wrote to port {}", p));
                }
            }
            let frames = match crate::policy::decode_frames(&st.ports[0]) {
                Ok(f) => f,
                Err(e) => return Some(format!("shared port does not split into whole frames: {}", e)),
            };
            let mut units = vec![];
            for (payload, tag) in frames {
                match table.get(&tag) {
                    None => return Some(format!("frame tag {} not in the destination table", tag)),
                    Some((d, term)) => {
                        let mut s = payload;
                        if let Some(c) = term {
                            s.push(*c);
                        }
                        units.push((d.clone(), s));
                    }
                }
            }
            if !is_merge(&units, &cfg.expected) {
                return Some(format!("decoded frames {:?} are not an interleaving of the records the threads emitted", units.iter().take(8).collect::<Vec<_>>()));
            }
            None
        }
        None => {
            for (p, data) in st.ports.iter().enumerate() {
                if !plain_stream_ok(data, &cfg.port_dest[p], &cfg.expected) {
                    return Some(format!("stream on {:?} does not split into whole records: {:?}", cfg.port_dest[p], data.chars().take(120).collect::<String>()));
                }
            }
            None
        }
    }
}

pub struct Explore {
    pub schedules: u64,
    pub distinct: HashSet<u64>,
    pub blocked_schedules: u64,
    pub alternating_schedules: u64,
    pub max_blocked_at_once: usize,
    pub exhaustive: bool,
    pub steps_executed: u64,
    pub bad: Option<Bad>,
}

fn enabled(cfg: &Config, st: &State) -> (Vec<usize>, usize, Option<String>) {
    let mut en = vec![];
    let mut blocked = 0;
    let mut selflock = None;
    for t in 0..cfg.threads.len() {
        if st.pc[t] >= cfg.threads[t].len() {
            continue;
        }
        match &cfg.threads[t][st.pc[t]] {
            StepKind::Lock(m) => match st.owner[*m] {
                None => en.push(t),
                Some(o) if o == t => {
                    selflock = Some(format!("thread {} locks mutex {} which it already holds", t, m));
                    blocked += 1;
                }
                Some(_) => blocked += 1,
            },
            _ => en.push(t),
        }
    }
    (en, blocked, selflock)
}

fn apply(cfg: &Config, st: &mut State, t: usize) {
    let s = &cfg.threads[t][st.pc[t]];
    match s {
        StepKind::Lock(m) => st.owner[*m] = Some(t),
        StepKind::Unlock(m) => st.owner[*m] = None,
        StepKind::Write(p, text) => st.ports[*p].push_str(text),
    }
    st.pc[t] += 1;
}

fn undo(cfg: &Config, st: &mut State, t: usize, prev_owner: Option<usize>) {
    st.pc[t] -= 1;
    match &cfg.threads[t][st.pc[t]] {
        StepKind::Lock(m) => st.owner[*m] = prev_owner,
        StepKind::Unlock(m) => st.owner[*m] = Some(t),
        StepKind::Write(p, text) => {
            let n = st.ports[*p].len() - text.len();
            st.ports[*p].truncate(n);
        }
    }
}

fn trace_hash(trace: &[usize]) -> u64 {
    let mut h = 0xcbf29ce484222325u64;
    for t in trace {
        h ^= *t as u64 + 1;
        h = h.wrapping_mul(0x100000001b3);
    }
    h
}

fn alternates(cfg: &Config, trace: &[usize]) -> bool {
    // two threads' write steps alternate on one port: A B A pattern among writes to the same port
    let mut pcs = vec![0usize; cfg.threads.len()];
    let mut last: HashMap<usize, Vec<usize>> = HashMap::new();
    for t in trace {
        if let StepKind::Write(p, _) = &cfg.threads[*t][pcs[*t]] {
            last.entry(*p).or_default().push(*t);
        }
        pcs[*t] += 1;
    }
    last.values().any(|v| v.windows(2).filter(|w| w[0] != w[1]).count() >= 2)
}

pub fn explore(cfg: &Config, seed: u64, dfs_budget: u64, random_schedules: u64) -> Explore {
    let mut ex = Explore { schedules: 0, distinct: HashSet::new(), blocked_schedules: 0, alternating_schedules: 0, max_blocked_at_once: 0, exhaustive: false, steps_executed: 0, bad: None };
    if let Some(b) = lockset(cfg) {
        ex.bad = Some(b);
        // keep exploring to find a concrete torn schedule as the witness
    }
    let fresh = || State { pc: vec![0; cfg.threads.len()], owner: vec![None; cfg.n_mutex], ports: vec![String::new(); cfg.n_ports] };
    // exhaustive DFS within the budget
    let mut st = fresh();
    let mut trace: Vec<usize> = vec![];
    let mut budget = dfs_budget;
    let mut complete = true;
    fn dfs(cfg: &Config, st: &mut State, trace: &mut Vec<usize>, ex: &mut Explore, budget: &mut u64, complete: &mut bool, was_blocked: bool) {
        if ex.bad.as_ref().map_or(false, |b| !matches!(b, Bad::Lockset { .. })) {
            return;
        }
        if *budget == 0 {
            *complete = false;
            return;
        }
        let (en, blocked, selflock) = enabled(cfg, st);
        ex.max_blocked_at_once = ex.max_blocked_at_once.max(blocked);
        let unfinished = (0..cfg.threads.len()).any(|t| st.pc[t] < cfg.threads[t].len());
        if en.is_empty() {
            *budget -= 1;
            ex.schedules += 1;
            ex.distinct.insert(trace_hash(trace));
            if unfinished {
                ex.bad = Some(Bad::Deadlock { detail: selflock.unwrap_or_else(|| "no thread can run but some are unfinished".into()), trace: trace.clone() });
                return;
            }
            if was_blocked {
                ex.blocked_schedules += 1;
            }
            if alternates(cfg, trace) {
                ex.alternating_schedules += 1;
            }
            if let Some(d) = check_quiescent(cfg, st) {
                ex.bad = Some(Bad::Torn { detail: d, trace: trace.clone() });
            }
            return;
        }
        if let Some(sl) = selflock {
            ex.bad = Some(Bad::Deadlock { detail: sl, trace: trace.clone() });
            return;
        }
        for t in en {
            let prev = match &cfg.threads[t][st.pc[t]] {
                StepKind::Lock(m) => st.owner[*m],
                _ => None,
            };
            apply(cfg, st, t);
            ex.steps_executed += 1;
            trace.push(t);
            dfs(cfg, st, trace, ex, budget, complete, was_blocked || blocked > 0);
            trace.pop();
            undo(cfg, st, t, prev);
            if *budget == 0 {
                *complete = false;
                return;
            }
        }
    }
    dfs(cfg, &mut st, &mut trace, &mut ex, &mut budget, &mut complete, false);
    ex.exhaustive = complete && ex.bad.as_ref().map_or(true, |b| matches!(b, Bad::Lockset { .. }));
    if ex.exhaustive || ex.bad.as_ref().map_or(false, |b| !matches!(b, Bad::Lockset { .. })) {
        return ex;
    }
    // random + priority (PCT-style) schedules beyond the DFS budget
    let mut r = Rng::new(seed);
    let mut stale = 0;
    for k in 0..random_schedules {
        let mut st = fresh();
        let mut trace = vec![];
        let mut was_blocked = false;
        let pct = k % 2 == 1;
        let mut prio: Vec<u64> = (0..cfg.threads.len()).map(|_| r.next()).collect();
        let total: usize = cfg.threads.iter().map(|t| t.len()).sum();
        let change_at = if total > 0 { r.usize(total) } else { 0 };
        loop {
            let (en, blocked, selflock) = enabled(cfg, &st);
            ex.max_blocked_at_once = ex.max_blocked_at_once.max(blocked);
            if blocked > 0 {
                was_blocked = true;
            }
            if en.is_empty() {
                let unfinished = (0..cfg.threads.len()).any(|t| st.pc[t] < cfg.threads[t].len());
                if unfinished {
                    ex.bad = Some(Bad::Deadlock { detail: selflock.unwrap_or_else(|| "no thread can run but some are unfinished".into()), trace: trace.clone() });
                    return ex;
                }
                break;
            }
            let t = if pct {
                if trace.len() == change_at {
                    let v = r.usize(prio.len());
                    prio[v] = 0;
                }
                *en.iter().max_by_key(|t| prio[**t]).unwrap()
            } else {
                en[r.usize(en.len())]
            };
            apply(cfg, &mut st, t);
            ex.steps_executed += 1;
            trace.push(t);
        }
        ex.schedules += 1;
        let newly = ex.distinct.insert(trace_hash(&trace));
        if newly {
            stale = 0;
        } else {
            stale += 1;
        }
        if was_blocked && newly {
            ex.blocked_schedules += 1;
        }
        if newly && alternates(cfg, &trace) {
            ex.alternating_schedules += 1;
        }
        if let Some(d) = check_quiescent(cfg, &st) {
            ex.bad = Some(Bad::Torn { detail: d, trace });
            return ex;
        }
        if stale >= 200 {
            break;
        }
    }
    ex
}

/// Free-running leg: real OS threads execute the same steps against shared state with injected
/// yields; the decoder monitor runs at quiescence.
/// Err = the wall-clock watchdog fired (inconclusive on a loaded machine, never a verdict).
pub fn free_run(cfg: &Config, seed: u64) -> Result<Option<Bad>, String> {
    use std::sync::atomic::{AtomicUsize, Ordering};
    use std::sync::Mutex;
    let owners: Vec<AtomicUsize> = (0..cfg.n_mutex).map(|_| AtomicUsize::new(usize::MAX)).collect();
    let ports: Vec<Mutex<String>> = (0..cfg.n_ports).map(|_| Mutex::new(String::new())).collect();
    let deadline = std::time::Instant::now() + std::time::Duration::from_secs(120);
    let stuck = std::sync::atomic::AtomicBool::new(false);
    std::thread::scope(|sc| {
        for (ti, steps) in cfg.threads.iter().enumerate() {
            let owners = &owners;
            let ports = &ports;
            let stuck = &stuck;
            sc.spawn(move || {
                let mut r = Rng::new(seed ^ (ti as u64 + 1) * 0x9e37);
                for s in steps {
                    match r.below(6) {
                        0 => std::thread::yield_now(),
                        1 => std::thread::sleep(std::time::Duration::from_micros(r.below(50))),
                        _ => {}
                    }
                    match s {
                        StepKind::Lock(m) => {
                            while owners[*m].compare_exchange(usize::MAX, ti, Ordering::AcqRel, Ordering::Acquire).is_err() {
                                if std::time::Instant::now() > deadline {
                                    stuck.store(true, Ordering::Relaxed);
                                    return;
                                }
                                std::thread::yield_now();
                            }
                        }
                        StepKind::Unlock(m) => owners[*m].store(usize::MAX, Ordering::Release),
                        StepKind::Write(p, text) => ports[*p].lock().unwrap().push_str(text),
                    }
                }
            });
        }
    });
    if stuck.load(std::sync::atomic::Ordering::Relaxed) {
        return Err("free-running threads did not finish within the 120 s watchdog".into());
    }
    let st = State { pc: cfg.threads.iter().map(|t| t.len()).collect(), owner: vec![None; cfg.n_mutex], ports: ports.into_iter().map(|p| p.into_inner().unwrap()).collect() };
    Ok(check_quiescent(cfg, &st).map(|d| Bad::Torn { detail: d, trace: vec![] }))
}
