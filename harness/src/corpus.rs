//! Input corpus shared by C03 (totality) and C17 (debug = release): streams of texts, each a pure
//! function of (seed, stream, index).

use crate::gen::*;
use crate::monitors::c05::member_args;
use crate::rng::Rng;
use crate::spec::{arity, VOCAB};

pub const STREAMS: [&str; 12] = ["grammar", "mutate", "args3", "args2", "numeric", "special", "vocab", "multibyte", "longwords", "charsweep", "nested", "resources"];

const HOSTILE: [char; 40] = [
    ' ', '\t', '\n', '\r', '(', ')', '!', ',', '-', '+', '/', '=', '%', '\\', '{', '}', '\'', '"', '0', '7', '8', '9', 'a', 'u', 'r', 'x', 'k', 'M', 's', 'd', ':', '@', '~', '#', ';', '*', '\u{e9}', '\u{1f600}',
    '\u{0}', '\u{7f}',
];

pub const VALID_POOL: &[&str] = &[
    "-true",
    "-name foo -print",
    "( -uid +5 -o -gid -7 ) -a ! -type f,d",
    "-size +10k -mtime -3 -fprint out.txt",
    "-printf '%p,%U,%{fid}\\n'",
    "-fprintf f '%A@ %TY\\t\\101'",
    "-perm /u+w,g=rx -links 2",
    "-perm -0644 , -print0",
    "-depth -threads 4 -xattr-match user val",
    "-amin 5m -cmin +2h -atime 0",
    "-iname '*.C' -ipath \"a b\" -pool p",
    "! ( -empty -o -readable ) , -quit",
    "-stripe-count 3 -mirror-count +0 -inum 12",
    "-regex x -o -nouser",
    "-print-file-fid -ls",
    "-maxdepth 3 -true",
    "-xattr user -writable -executable",
];

fn arg_alphabet(kw: &str) -> Vec<char> {
    let num: Vec<char> = "0189+-bcwkMGTsmhd x".chars().collect();
    match kw {
        "-perm" => "0178-/+=,ugoarwx q".chars().collect(),
        "-type" => "bcdpfls,q x".chars().collect(),
        "-printf" | "-fprintf" => "%\\{}AnpqcC078@ '\"".chars().collect(),
        "-name" | "-iname" | "-path" | "-ipath" | "-pool" | "-xattr" | "-xattr-match" | "-fprint" | "-fprint0" | "-fls" => "a'\"() \\*~)".chars().collect(),
        _ => num,
    }
}

fn gen_text_tree(r: &mut Rng, depth: usize) -> String {
    // grammar-aware generation with nesting up to `depth`
    if depth == 0 || r.chance(1, 3) {
        let kw = &VOCAB[r.usize(VOCAB.len())];
        let mut p = kw.word.to_string();
        for a in member_args(kw.lang, r) {
            p.push(' ');
            p.push_str(&a);
        }
        return p;
    }
    match r.below(6) {
        0 => format!("! {}", gen_text_tree(r, depth - 1)),
        1 => format!("( {} )", gen_text_tree(r, depth - 1)),
        2 => format!("({})", gen_text_tree(r, depth - 1)),
        3 => format!("{} {}", gen_text_tree(r, depth - 1), gen_text_tree(r, depth - 1)),
        4 => format!("{} {} {}", gen_text_tree(r, depth - 1), ["-o", "-or", "-a", "-and", ","][r.usize(5)], gen_text_tree(r, depth - 1)),
        _ => {
            // deep nesting chain
            let n = 1 + r.usize(56); // at most 5 further levels around it: within the stated bound of 64
            let inner = gen_text_tree(r, 0);
            if r.chance(1, 2) {
                format!("{}{}{}", "( ".repeat(n), inner, " )".repeat(n))
            } else {
                format!("{}{}", "! ".repeat(n), inner)
            }
        }
    }
}

/// every printable ASCII character (and one multi-byte one) at each position of each argument
/// mini-language: '@' marks the swept position
pub const CHARSWEEP_TEMPLATES: &[&str] = &[
    "-size 5@", "-size +5@", "-size @", "-size 5k@", "-amin 5@", "-atime -5@", "-mtime @5", "-cmin 5m@", "-uid 5@", "-uid @", "-uid @5", "-gid +@", "-links 5@", "-inum @",
    "-threads 4@", "-threads @", "-type @", "-type f@", "-type f,@", "-type @,f", "-perm @", "-perm @+r", "-perm u@r", "-perm u+@", "-perm u+r@", "-perm u+r,@", "-perm -@", "-perm /@", "-perm 64@", "-perm 644@", "-perm @644",
    "-printf %@", "-printf a%@", "-printf %A@", "-printf %T@x", "-printf \\@", "-printf \\1@", "-printf \\12@", "-printf %{@}", "-printf %{xattr:@}", "-printf %{fid@", "-fprintf f %@", "-fprintf @ %p",
    "-name @", "-name a@", "-name '@'", "-name \"@\"", "-name @ -print", "-xattr-match @ v", "-xattr-match n @", "-pool @", "-true@", "-true @", "@-true", "-print@", "-depth@", "( -true @)", "(@ -true )", "! @", "-true -o @", "-true , @", "-@", "--@", "-fprint @",
];

pub fn count(stream: &str, thorough: bool, scale: f64) -> u64 {
    let base: u64 = match stream {
        "grammar" => if thorough { 600_000 } else { 60_000 },
        "mutate" => if thorough { 600_000 } else { 80_000 },
        "args3" => if thorough { 400_000 } else { 90_000 },
        "args2" => if thorough { 150_000 } else { 40_000 },
        "numeric" => if thorough { 150_000 } else { 20_000 },
        "special" => 4_000,
        "vocab" => if thorough { 150_000 } else { 20_000 },
        "multibyte" => if thorough { 50_000 } else { 8_000 },
        "longwords" => if thorough { 200_000 } else { 30_000 },
        "charsweep" => return CHARSWEEP_TEMPLATES.len() as u64 * 96,
        "nested" => if thorough { 20_000 } else { 1_500 },
        "resources" => if thorough { 20_000 } else { 1_500 },
        _ => 0,
    };
    ((base as f64) * scale).max(1.0) as u64
}

pub fn input(seed: u64, stream: &str, i: u64) -> String {
    let mut r = Rng::for_case(seed, stream, i);
    match stream {
        "grammar" => {
            let d = 1 + r.usize(5);
            let mut s = gen_text_tree(&mut r, d);
            let mut guard = 0;
            while s.len() < 200 && r.chance(1, 4) && guard < 20 {
                s = format!("{} {}", s, gen_text_tree(&mut r, 2));
                guard += 1;
            }
            if s.len() > 4096 {
                let mut cut = 4096;
                while !s.is_char_boundary(cut) {
                    cut -= 1;
                }
                s.truncate(cut);
            }
            s
        }
        "mutate" => {
            let base = VALID_POOL[r.usize(VALID_POOL.len())];
            let cs: Vec<char> = base.chars().collect();
            match r.below(4) {
                0 => cs[..r.usize(cs.len() + 1)].iter().collect(), // prefix
                1 => {
                    let p = r.usize(cs.len());
                    let mut o: Vec<char> = cs.clone();
                    o[p] = HOSTILE[r.usize(40)];
                    o.iter().collect()
                }
                2 => {
                    let p = r.usize(cs.len() + 1);
                    let mut o: Vec<char> = cs.clone();
                    o.insert(p, HOSTILE[r.usize(40)]);
                    o.iter().collect()
                }
                _ => {
                    let p = r.usize(cs.len());
                    let mut o: Vec<char> = cs.clone();
                    o.remove(p);
                    o.iter().collect()
                }
            }
        }
        "args3" => {
            // after each argument-taking keyword, argument strings up to length 3 over its class alphabet
            let kws: Vec<&crate::spec::Kw> = VOCAB.iter().filter(|k| arity(k.lang) > 0).collect();
            let kw = kws[(i % kws.len() as u64) as usize];
            let al = arg_alphabet(kw.word);
            let mut idx = i / kws.len() as u64;
            let n = al.len() as u64;
            let mut len = 1;
            loop {
                let block = n.pow(len);
                if idx < block || len == 3 {
                    idx %= block;
                    break;
                }
                idx -= block;
                len += 1;
            }
            let mut a = String::new();
            for _ in 0..len {
                a.push(al[(idx % n) as usize]);
                idx /= n;
            }
            if arity(kw.lang) == 2 {
                if r.chance(1, 2) {
                    format!("{} f {}", kw.word, a)
                } else {
                    format!("{} {} f", kw.word, a)
                }
            } else {
                format!("{} {}", kw.word, a)
            }
        }
        "args2" => {
            let kws: Vec<&crate::spec::Kw> = VOCAB.iter().filter(|k| arity(k.lang) > 0).collect();
            let kw = kws[(i % kws.len() as u64) as usize];
            let mut idx = i / kws.len() as u64;
            let len = 1 + (idx / 1600).min(1) as usize;
            let mut a = String::new();
            for _ in 0..=len.min(1) {
                a.push(HOSTILE[(idx % 40) as usize]);
                idx /= 40;
            }
            format!("{} {}", kw.word, a)
        }
        "numeric" => {
            let kws = ["-uid", "-gid", "-inum", "-links", "-size", "-amin", "-mtime", "-threads", "-maxdepth", "-mindepth", "-perm", "-stripe-count", "-mirror-count", "-ctime"];
            let kw = kws[r.usize(kws.len())];
            let vals = ["0", "1", "2147483647", "2147483648", "4294967295", "4294967296", "9223372036854775807", "9223372036854775808", "18446744073709551615", "18446744073709551616", "36028797018963967", "36028797018963968", "18014398509481984", "17179869184", "16777216", "99999999999999999999999999999999999999999", "777", "7777", "17777", "77777", "777777777777777777777777"];
            let v = if r.chance(2, 3) { vals[r.usize(vals.len())].to_string() } else { (r.next() >> r.below(64)).to_string() };
            let z = "0".repeat(if r.chance(1, 4) { r.usize(31) } else { 0 });
            let sign = ["", "+", "-", "/"][r.usize(4)];
            let unit = ["", "b", "c", "w", "k", "M", "G", "T", "s", "m", "h", "d"][r.usize(12)];
            format!("{} {}{}{}{}", kw, sign, z, v, unit)
        }
        "special" => {
            let specials = [
                "nope", "-maxdepth 3", "-true -mindepth 2", "-mindepth 0", "-maxdepth 4294967295", "-perm 17777", "-perm 77777777777777", "-printf 'a\\7777777b'", "-printf '\\1234'",
                "-size 18014398509481984k", "-size 36028797018963968", "-printf '\\c'", "-true nope", "nope -print", "( nope )", "-printf %", "-printf '%A'", "-printf '\\'", "", " ", "(", ")", "!", ",", "-a",
                "-o", "-printf '%{xattr:'", "-printf '%{'", "-perm /", "-perm -", "-perm u", "-perm u+", "-size +", "-uid -", "-type ,", "-name ''", "-name \"\"", "-fprintf '' ''",
            ];
            let base = specials[(i % specials.len() as u64) as usize].to_string();
            // every other case: a user string that spells a piece of the emitted program, at a random
            // string-carrying site, in a quoting style that can carry it
            if i % 2 == 1 {
                let sp = crate::gen::program_spellings();
                let w = &sp[((i / 2) % sp.len() as u64) as usize];
                if let Some(q) = crate::gen::word(w, 1 + r.below(2) as u8) {
                    let site = ["-name {}", "-iname {}", "-path {}", "-pool {}", "-xattr {}", "-xattr-match user {}", "-xattr-match {} v", "-fprint {}", "-fprintf {} %p", "-name {} -print0", "-pool {} -fprint f", "-printf {}", "-uid 1 -o -name {}"][r.usize(13)];
                    return site.replace("{}", &q);
                }
            }
            match (i / specials.len() as u64) % 4 {
                0 => base,
                1 => format!("-true {}", base),
                2 => format!("{} -print", base),
                _ => format!("( {} )", base),
            }
        }
        "multibyte" => {
            // multi-byte characters at every kind of boundary (the subset Miri interprets)
            let mb = ['\u{e9}', '\u{1f600}', '\u{4e2d}', '\u{7f}', '\u{80}', '\u{a0}', '\u{2028}', '\u{feff}'];
            let base = VALID_POOL[r.usize(VALID_POOL.len())];
            let mut cs: Vec<char> = base.chars().collect();
            let k = 1 + r.usize(3);
            for _ in 0..k {
                let p = r.usize(cs.len() + 1);
                if r.chance(1, 2) || cs.is_empty() {
                    cs.insert(p, mb[r.usize(mb.len())]);
                } else {
                    let q = p.min(cs.len() - 1);
                    cs[q] = mb[r.usize(mb.len())];
                }
            }
            if r.chance(1, 4) {
                let cut = r.usize(cs.len() + 1);
                cs.truncate(cut);
            }
            cs.iter().collect()
        }
        "charsweep" => {
            let t = CHARSWEEP_TEMPLATES[(i / 96) as usize % CHARSWEEP_TEMPLATES.len()];
            let k = i % 96;
            let c = if k == 95 { '\u{e9}' } else { (0x20u8 + k as u8) as char };
            t.replacen('@', &c.to_string(), 1)
        }
        "nested" => {
            // nesting up to the stated 64 levels where every level is an operator expression in first-,
            // last- or middle-clause position: ( ( a , b ) , c ), ( a -o ( b c ) ), ! ( ... ) - a parser that
            // re-parses a group per level (backtracking without a cut) is exponential in the depth
            let depth = 1 + r.usize(64);
            let leafs = ["-true", "-false", "-print", "-name x", "-uid 1", "-type f"];
            let mut e = leafs[r.usize(leafs.len())].to_string();
            let style = r.below(4); // 0: always first clause, 1: always last, 2/3: mixed
            for _ in 0..depth {
                let l = leafs[r.usize(leafs.len())];
                let op = ["", " -a", " -o", " ,", " ,", " -or"][r.usize(6)];
                let first = match style {
                    0 => true,
                    1 => false,
                    _ => r.chance(1, 2),
                };
                e = match (first, r.below(8)) {
                    (_, 0) => format!("! ( {} )", e),
                    (true, _) => format!("( {}{} {} )", e, op, l),
                    (false, _) => format!("( {}{} {} )", l, op, e),
                };
                if e.len() > 3900 {
                    break;
                }
            }
            if r.chance(1, 6) {
                // one parenthesis too few or too many, deep inside
                let p = e.len() / 2;
                let cut = (p..e.len()).find(|i| e.is_char_boundary(*i) && e[*i..].starts_with(')')).unwrap_or(e.len() - 1);
                e.remove(cut);
            }
            e
        }
        "resources" => {
            // many distinct matchers and destinations in one expression (identifier numbers and frame tags
            // pass 9, 15, 63, 127, 255), in both output modes, within 4 KiB
            let k = match r.below(4) {
                0 => 8 + r.usize(12),
                1 => 60 + r.usize(12),
                2 => 120 + r.usize(20),
                _ => 20 + r.usize(260),
            };
            let framed = r.chance(2, 3);
            let mut parts: Vec<String> = vec![];
            let mut len = 0;
            for j in 0..k {
                let w = match r.below(if framed { 9 } else { 6 }) {
                    0 | 1 => format!("-name p{}", j),
                    2 => format!("-iname q{}", j),
                    3 => format!("-path r{}", j),
                    4 => "-print".to_string(),
                    5 => format!("-name p{}", r.below(k as u64)),
                    6 => format!("-fprint f{}", j),
                    7 => format!("-fprint0 f{}", r.below(k as u64)),
                    _ => format!("-fprintf g{} %p", j),
                };
                len += w.len() + 4;
                if len > 3900 {
                    break;
                }
                parts.push(w);
                if j + 1 < k {
                    parts.push(["-o", "-o", ",", "-a"][r.usize(4)].to_string());
                }
            }
            while matches!(parts.last().map(|s| s.as_str()), Some("-o") | Some(",") | Some("-a")) {
                parts.pop();
            }
            if framed && r.chance(1, 2) {
                parts.push(", -print0".into());
            }
            parts.join(" ")
        }
        "longwords" => {
            // long words (up to ~300 bytes) of mixed ASCII / multi-byte characters in keyword and
            // argument positions: error paths re-read and quote these words
            let mb = ['\u{e9}', '\u{1f600}', '\u{4e2d}', 'a', '9', '-', '%', '\\', 'x', '\u{df}'];
            let n = 1 + r.usize(120);
            let mut w = String::new();
            let lead = r.usize(4);
            for _ in 0..lead {
                w.push(*r.pick(&['a', '1', '-', '+']));
            }
            for _ in 0..n {
                let lim = if r.chance(1, 2) { 3 } else { mb.len() };
                w.push(mb[r.usize(lim)]);
            }
            let kws: Vec<&crate::spec::Kw> = VOCAB.iter().collect();
            let kw = kws[r.usize(kws.len())];
            match r.below(6) {
                0 => w,
                1 => format!("-{}", w),
                2 => format!("-true {}", w),
                3 => format!("{} {} -print", kw.word, w),
                4 => format!("( {} '{}' )", kw.word, w),
                _ => format!("{} f {}", kw.word, w),
            }
        }
        "vocab" => {
            // C05-style members and corrupted members
            let kw = &VOCAB[(i % VOCAB.len() as u64) as usize];
            let mut p = kw.word.to_string();
            for a in member_args(kw.lang, &mut r) {
                p.push(' ');
                if r.chance(1, 3) {
                    let j = ["x", "9", "-true", ",", ".", "k", "\\", "\"", "%"][r.usize(9)];
                    p.push_str(&format!("{}{}", a, j));
                } else {
                    p.push_str(&a);
                }
            }
            match r.below(4) {
                0 => p,
                1 => format!("-true {}", p),
                2 => format!("( {} ) -o -false", p),
                _ => format!("{} -print", p),
            }
        }
        _ => String::new(),
    }
}
