//! Spec-side reference parser for the whole input language (DESIGN.md Appendix A): written from
//! find(1), the doc comments of the AST and the keyword names - never from the parser under test.
//! For any input text it answers Ok(options, tree) / Err / Unspecified (a corner the documents do
//! not settle, listed in spec/UNSPECIFIED.md; such cases are skipped by the monitors).

use crate::gen::{act, and, list, mk_size, mk_time, not, or, t};
use lipe_find_parser::ast::*;
use lipe_find_parser::Mode;

#[derive(Clone, Debug, PartialEq)]
pub struct SpecOk {
    pub depth: bool,
    pub threads: Option<u32>,
    /// -maxdepth / -mindepth occurrences (is_max, value): the input may be refused or the value carried
    pub depth_limits: Vec<(bool, u32)>,
    /// the input uses a form the vocabulary does not have to accept (chmod's fuller symbolic grammar):
    /// it may be refused, but if it is accepted the tree must be this one
    pub may_refuse: bool,
    /// some option stood inside the expression (there it "behaves as -true")
    pub inner_options: bool,
    pub tree: Expression,
}

#[derive(Clone, Debug, PartialEq)]
pub enum Spec {
    Ok(SpecOk),
    Err(String),
    Unspecified(String),
}

#[derive(Clone, Debug, PartialEq)]
pub enum Tok {
    LParen,
    RParen,
    Not,
    Comma,
    And,
    Or,
    Prim(Expression),
    Opt(GlobalOption),
}

#[derive(Clone, Debug, PartialEq)]
pub struct RawWord {
    pub text: String,
    pub quoted: bool,
    pub start: usize,
}

pub fn is_blank(c: char) -> bool {
    c == ' ' || c == '\t' || c == '\r' || c == '\n'
}

enum LexErr {
    Err(String),
    Unspec(String),
}

struct Lx<'a> {
    cs: &'a [char],
    i: usize,
}

impl<'a> Lx<'a> {
    fn skip_blank(&mut self) -> Result<(), LexErr> {
        while self.i < self.cs.len() {
            let c = self.cs[self.i];
            // blanks are exactly space, tab, CR and LF (C06 enumerates them; the shell that hands find its
            // words splits on no others either): VT, FF, NBSP, U+2028, U+3000 ... are word characters
            if is_blank(c) {
                self.i += 1;
            } else {
                break;
            }
        }
        Ok(())
    }
    fn at_end(&self) -> bool {
        self.i >= self.cs.len()
    }
    /// A raw word starting at the current (non-blank) position.
    fn raw_word(&mut self, as_argument: bool) -> Result<RawWord, LexErr> {
        let start = self.i;
        let c = self.cs[self.i];
        if c == '\'' || c == '"' {
            let mut j = self.i + 1;
            while j < self.cs.len() && self.cs[j] != c {
                j += 1;
            }
            if j >= self.cs.len() {
                return Err(LexErr::Unspec("unterminated quote".into()));
            }
            if j == self.i + 1 {
                return Err(LexErr::Unspec("empty quoted string".into()));
            }
            let text: String = self.cs[self.i + 1..j].iter().collect();
            self.i = j + 1;
            if !self.at_end() && !is_blank(self.cs[self.i]) && self.cs[self.i] != ')' {
                return Err(LexErr::Err("text glued to the end of a quoted string".into()));
            }
            return Ok(RawWord { text, quoted: true, start });
        }
        if as_argument && c == '(' {
            return Err(LexErr::Unspec("argument word starting with '('".into()));
        }
        let mut j = self.i;
        while j < self.cs.len() && !is_blank(self.cs[j]) && self.cs[j] != ')' {
            j += 1;
        }
        let text: String = self.cs[self.i..j].iter().collect();
        if as_argument && text.contains('(') {
            return Err(LexErr::Unspec("'(' inside an unquoted argument word".into()));
        }
        self.i = j;
        Ok(RawWord { text, quoted: false, start })
    }
}

// ---------------------------------------------------------------------------------------------
// argument languages

fn all_digits(s: &str) -> bool {
    !s.is_empty() && s.chars().all(|c| c.is_ascii_digit())
}

fn dec_u128(s: &str) -> Option<u128> {
    if !all_digits(s) {
        return None;
    }
    let t = s.trim_start_matches('0');
    if t.len() > 38 {
        return Some(u128::MAX);
    }
    if t.is_empty() {
        return Some(0);
    }
    t.parse::<u128>().ok()
}

fn split_sign(s: &str) -> (u8, &str) {
    if let Some(r) = s.strip_prefix('+') {
        (1, r)
    } else if let Some(r) = s.strip_prefix('-') {
        (2, r)
    } else {
        (0, s)
    }
}

fn mk_cmp<T>(sign: u8, v: T) -> Comparison<T> {
    match sign {
        1 => Comparison::GreaterThan(v),
        2 => Comparison::LesserThan(v),
        _ => Comparison::Equal(v),
    }
}

pub fn arg_count_u32(s: &str) -> Option<Comparison<u32>> {
    let (sign, d) = split_sign(s);
    let v = dec_u128(d)?;
    if v > u32::MAX as u128 {
        return None;
    }
    Some(mk_cmp(sign, v as u32))
}

pub fn arg_count_u64(s: &str) -> Option<Comparison<u64>> {
    let (sign, d) = split_sign(s);
    let v = dec_u128(d)?;
    if v > u64::MAX as u128 {
        return None;
    }
    Some(mk_cmp(sign, v as u64))
}

pub fn arg_plain_u32(s: &str) -> Option<u32> {
    let v = dec_u128(s)?;
    if v > u32::MAX as u128 {
        return None;
    }
    Some(v as u32)
}

pub fn arg_size(s: &str) -> Option<Comparison<Size>> {
    let (sign, body) = split_sign(s);
    let (digits, unit) = match body.chars().last() {
        Some(c) if "bcwkMGT".contains(c) => (&body[..body.len() - 1], c),
        _ => (body, 'b'),
    };
    let v = dec_u128(digits)?;
    let (idx, mult): (u64, u128) = match unit {
        'c' => (0, 1),
        'w' => (1, 2),
        'b' => (2, 512),
        'k' => (3, 1 << 10),
        'M' => (4, 1 << 20),
        'G' => (5, 1 << 30),
        _ => (6, 1 << 40),
    };
    if v > u64::MAX as u128 || v.checked_mul(mult)? > u64::MAX as u128 {
        return None;
    }
    Some(mk_cmp(sign, mk_size(idx, v as u64)))
}

pub fn arg_time(s: &str, default_day: bool) -> Option<Comparison<TimeSpec>> {
    let (sign, body) = split_sign(s);
    let (digits, unit) = match body.chars().last() {
        Some(c) if "smhd".contains(c) => (&body[..body.len() - 1], Some(c)),
        _ => (body, None),
    };
    let v = dec_u128(digits)?;
    if v > u64::MAX as u128 {
        return None;
    }
    let idx = match unit {
        Some('s') => 0,
        Some('m') => 1,
        Some('h') => 2,
        Some('d') => 3,
        _ => {
            if default_day {
                3
            } else {
                1
            }
        }
    };
    Some(mk_cmp(sign, mk_time(idx, v as u64)))
}

pub fn arg_types(s: &str) -> Option<Vec<FileType>> {
    let mut v = vec![];
    if s.is_empty() {
        return None;
    }
    for part in s.split(',') {
        let mut cs = part.chars();
        let c = cs.next()?;
        if cs.next().is_some() {
            return None;
        }
        v.push(match c {
            'b' => FileType::Block,
            'c' => FileType::Character,
            'd' => FileType::Directory,
            'p' => FileType::Pipe,
            'f' => FileType::File,
            'l' => FileType::Link,
            's' => FileType::Socket,
            _ => return None,
        });
    }
    Some(v)
}

/// chmod clause algebra: fold the clauses from mode 0.
pub fn chmod_symbolic(s: &str) -> Option<u32> {
    let mut m: u32 = 0;
    if s.is_empty() {
        return None;
    }
    for clause in s.split(',') {
        let cs: Vec<char> = clause.chars().collect();
        let mut i = 0;
        let mut who = 0u32;
        while i < cs.len() && "ugoa".contains(cs[i]) {
            who |= match cs[i] {
                'u' => 0o700,
                'g' => 0o070,
                'o' => 0o007,
                _ => 0o777,
            };
            i += 1;
        }
        if i == 0 || i >= cs.len() {
            return None;
        }
        let op = cs[i];
        if !"+-=".contains(op) {
            return None;
        }
        i += 1;
        let mut perm = 0u32;
        let pstart = i;
        while i < cs.len() && "rwx".contains(cs[i]) {
            perm |= match cs[i] {
                'r' => 0o444,
                'w' => 0o222,
                _ => 0o111,
            };
            i += 1;
        }
        if i == pstart || i != cs.len() {
            return None;
        }
        match op {
            '+' => m |= who & perm,
            '-' => m &= !(who & perm),
            _ => m = (m & !who) | (who & perm),
        }
    }
    Some(m)
}

/// The defect model D1 for the known finding on '-' clauses (DESIGN.md Appendix D): a '-' clause
/// clears who & ~perm instead of who & perm.
pub fn chmod_symbolic_d1(s: &str) -> Option<u32> {
    let mut m: u32 = 0;
    for clause in s.split(',') {
        let cs: Vec<char> = clause.chars().collect();
        let opi = cs.iter().position(|c| "+-=".contains(*c))?;
        let mut who = 0u32;
        for c in &cs[..opi] {
            who |= match c {
                'u' => 0o700,
                'g' => 0o070,
                'o' => 0o007,
                'a' => 0o777,
                _ => return None,
            };
        }
        let mut perm = 0u32;
        for c in &cs[opi + 1..] {
            perm |= match c {
                'r' => 0o444,
                'w' => 0o222,
                'x' => 0o111,
                _ => return None,
            };
        }
        match cs[opi] {
            '+' => m |= who & perm,
            '-' => m &= !(who & !perm),
            _ => m = (m & !who) | (who & perm),
        }
    }
    Some(m)
}

pub enum PermArg {
    Ok(PermCheck),
    /// outside the required language; if accepted it must denote these bits
    OkIfAccepted(PermCheck),
    NotMember,
    Unspecified(String),
}

pub fn arg_perm(s: &str) -> PermArg {
    let (kind, body) = if let Some(r) = s.strip_prefix('/') {
        (2, r)
    } else if let Some(r) = s.strip_prefix('-') {
        (1, r)
    } else {
        (0, s)
    };
    let bits = if !body.is_empty() && body.chars().all(|c| ('0'..='7').contains(&c)) {
        if body.len() > 4 || body.len() < 3 {
            // whether a spelling of 1-2 or of 5+ digits is a member is not documented (find(1) accepts
            // both, the project's grammar asks for 3-4): it may be refused. What C08 does fix is that an
            // accepted octal argument "denotes exactly the bits of its octal value": a value above 07777
            // has bits the twelve-bit mode cannot carry, so it can only be refused (as find(1) does).
            let v = u128::from_str_radix(body, 8).unwrap_or(u128::MAX);
            if v > 0o7777 {
                return PermArg::NotMember;
            }
            let p = Permission(Mode::from_bits(v as u32).unwrap());
            return PermArg::OkIfAccepted(match kind {
                0 => PermCheck::Equal(p),
                1 => PermCheck::AtLeast(p),
                _ => PermCheck::Any(p),
            });
        }
        u32::from_str_radix(body, 8).unwrap()
    } else {
        match chmod_symbolic(body) {
            Some(b) => b,
            None => {
                // chmod(1) itself accepts more (empty who or permission list, X s t, copies u g o): the
                // property only fixes who in {u,g,o,a}, operators + - = and permissions r w x
                let fuller = !body.is_empty()
                    && body.split(',').all(|c| {
                        let cs: Vec<char> = c.chars().collect();
                        let who = cs.iter().take_while(|x| "ugoa".contains(**x)).count();
                        who < cs.len() && "+-=".contains(cs[who]) && cs[who + 1..].iter().all(|x| "rwxXstugo".contains(*x))
                    });
                if fuller {
                    // empty who (= a), empty permission list and X (execute only if some execute bit is
                    // already set; the starting mode is 0 and no file is a directory here) have a fixed
                    // chmod meaning; s t and copies (g=u) are left unspecified
                    let mut m: u32 = 0;
                    for clause in body.split(',') {
                        let cs: Vec<char> = clause.chars().collect();
                        let nwho = cs.iter().take_while(|x| "ugoa".contains(**x)).count();
                        let mut who = 0u32;
                        for c in &cs[..nwho] {
                            who |= match c {
                                'u' => 0o700,
                                'g' => 0o070,
                                'o' => 0o007,
                                _ => 0o777,
                            };
                        }
                        if nwho == 0 {
                            // chmod masks an empty who with the umask, and find once read "-perm +mode"
                            // as "any of these bits": no fixed meaning
                            return PermArg::Unspecified("symbolic mode clause with an empty who".into());
                        }
                        let mut perm = 0u32;
                        for c in &cs[nwho + 1..] {
                            perm |= match c {
                                'r' => 0o444,
                                'w' => 0o222,
                                'x' => 0o111,
                                'X' => {
                                    if m & 0o111 != 0 {
                                        0o111
                                    } else {
                                        0
                                    }
                                }
                                _ => return PermArg::Unspecified("symbolic mode using s, t or a copy (g=u)".into()),
                            };
                        }
                        match cs[nwho] {
                            '+' => m |= who & perm,
                            '-' => m &= !(who & perm),
                            _ => m = (m & !who) | (who & perm),
                        }
                    }
                    if body.contains('-') && body.contains(',') {
                        return PermArg::Unspecified("fuller symbolic mode with a '-' clause in a list (C08's known finding)".into());
                    }
                    let p = Permission(Mode::from_bits(m).unwrap());
                    return PermArg::OkIfAccepted(match kind {
                        0 => PermCheck::Equal(p),
                        1 => PermCheck::AtLeast(p),
                        _ => PermCheck::Any(p),
                    });
                }
                return PermArg::NotMember;
            }
        }
    };
    let p = Permission(Mode::from_bits(bits).unwrap());
    PermArg::Ok(match kind {
        0 => PermCheck::Equal(p),
        1 => PermCheck::AtLeast(p),
        _ => PermCheck::Any(p),
    })
}

// ---------------------------------------------------------------------------------------------
// format scanner (C14 reference)

pub enum Fmt {
    Ok(Vec<FormatElement>),
    /// two documented readings (1-2 digit octal escapes): either is accepted
    Either(Vec<FormatElement>, Vec<FormatElement>),
    Err,
    Unspecified(String),
}

fn push_lit(v: &mut Vec<FormatElement>, c: char) {
    if let Some(FormatElement::Literal(s)) = v.last_mut() {
        s.push(c);
    } else {
        v.push(FormatElement::Literal(c.to_string()));
    }
}

/// `gnu`: 1-3 digit octal escapes (find(1)); otherwise the project's documented reading (\NNN only).
fn scan(s: &str, gnu: bool, ambiguous: &mut bool) -> Result<Vec<FormatElement>, Fmt> {
    let cs: Vec<char> = s.chars().collect();
    let mut v: Vec<FormatElement> = vec![];
    let mut i = 0;
    while i < cs.len() {
        let c = cs[i];
        if c == '%' {
            i += 1;
            if i >= cs.len() {
                return Err(Fmt::Err);
            }
            let d = cs[i];
            let single = match d {
                '%' => Some(FormatField::Percent),
                'a' => Some(FormatField::Access),
                'b' => Some(FormatField::DiskSizeBlocks),
                'c' => Some(FormatField::Change),
                'd' => Some(FormatField::Depth),
                'D' => Some(FormatField::DeviceNumber),
                'f' => Some(FormatField::Basename),
                'F' => Some(FormatField::FsType),
                'g' => Some(FormatField::Group),
                'G' => Some(FormatField::GroupId),
                'h' => Some(FormatField::Parents),
                'H' => Some(FormatField::StartingPoint),
                'i' => Some(FormatField::InodeDecimal),
                'k' => Some(FormatField::DiskSizeKilos),
                'l' => Some(FormatField::SymbolicTarget),
                'm' => Some(FormatField::PermissionsOctal),
                'M' => Some(FormatField::PermissionsSymbolic),
                'n' => Some(FormatField::Hardlinks),
                'p' => Some(FormatField::Name),
                'P' => Some(FormatField::NameWithoutStartingPoint),
                's' => Some(FormatField::DiskSizeBytes),
                'S' => Some(FormatField::Sparseness),
                't' => Some(FormatField::Modify),
                'u' => Some(FormatField::User),
                'U' => Some(FormatField::UserId),
                'y' => Some(FormatField::Type),
                'Y' => Some(FormatField::TypeSymlink),
                'Z' => Some(FormatField::SecurityContext),
                _ => None,
            };
            if let Some(f) = single {
                v.push(FormatElement::Field(f));
                i += 1;
                continue;
            }
            if d == 'A' || d == 'C' || d == 'T' {
                if i + 1 >= cs.len() {
                    return Err(Fmt::Err);
                }
                let k = cs[i + 1];
                // find(1) documents a table of selectors; whether a character outside it is "a
                // documented directive" is not decided (the library hands any character to strftime)
                if !"@HIklMprSTXZ+aAbBcdDFhjmUwWxyY".contains(k) {
                    return Err(Fmt::Unspecified("%A/%C/%T with a selector outside find(1)'s table".into()));
                }
                v.push(FormatElement::Field(match d {
                    'A' => FormatField::AccessFormatted(k),
                    'C' => FormatField::ChangeFormatted(k),
                    _ => FormatField::ModifyFormatted(k),
                }));
                i += 2;
                continue;
            }
            if d == '{' {
                let rest: String = cs[i..].iter().collect();
                let fixed = [
                    ("{fid}", FormatField::FileId),
                    ("{projid}", FormatField::ProjectId),
                    ("{mirror-count}", FormatField::MirrorCount),
                    ("{stripe-count}", FormatField::StripeCount),
                    ("{stripe-size}", FormatField::StripeSize),
                ];
                let mut hit = false;
                for (txt, f) in fixed.iter() {
                    if rest.starts_with(txt) {
                        v.push(FormatElement::Field(f.clone()));
                        i += txt.chars().count();
                        hit = true;
                        break;
                    }
                }
                if hit {
                    continue;
                }
                if let Some(r) = rest.strip_prefix("{xattr:") {
                    match r.find('}') {
                        Some(end) => {
                            let name = &r[..end];
                            if !name.is_empty() && name.chars().all(|c| c.is_ascii_alphabetic()) {
                                v.push(FormatElement::Field(FormatField::XAttr(name.to_string())));
                                i += "{xattr:".len() + name.chars().count() + 1;
                                continue;
                            }
                            return Err(Fmt::Unspecified("%{xattr:NAME} with an empty or non-alphabetic NAME".into()));
                        }
                        None => return Err(Fmt::Err),
                    }
                }
                return Err(Fmt::Err);
            }
            return Err(Fmt::Err);
        }
        if c == '\\' {
            // octal digits following
            let mut nd = 0;
            while nd < 3 && i + 1 + nd < cs.len() && ('0'..='7').contains(&cs[i + 1 + nd]) {
                nd += 1;
            }
            if nd == 3 {
                let val = cs[i + 1..i + 4].iter().fold(0u16, |a, d| a * 8 + d.to_digit(8).unwrap() as u16);
                v.push(FormatElement::Special(FormatSpecial::Ascii(val)));
                i += 4;
                continue;
            }
            if nd > 0 {
                // one or two digits. "\0" followed by a non-octal character is the documented NUL.
                if nd == 1 && cs[i + 1] == '0' {
                    v.push(FormatElement::Special(FormatSpecial::Null));
                    i += 2;
                    continue;
                }
                *ambiguous = true;
                if gnu {
                    let val = cs[i + 1..i + 1 + nd].iter().fold(0u16, |a, d| a * 8 + d.to_digit(8).unwrap() as u16);
                    v.push(FormatElement::Special(FormatSpecial::Ascii(val)));
                    i += 1 + nd;
                    continue;
                }
                if cs[i + 1] == '0' {
                    v.push(FormatElement::Special(FormatSpecial::Null));
                    i += 2;
                    continue;
                }
                v.push(FormatElement::Special(FormatSpecial::Backslash));
                i += 1;
                continue;
            }
            let e = cs.get(i + 1).copied();
            let sp = match e {
                Some('a') => Some(FormatSpecial::Alarm),
                Some('b') => Some(FormatSpecial::Backspace),
                Some('c') => Some(FormatSpecial::Clear),
                Some('f') => Some(FormatSpecial::Form),
                Some('n') => Some(FormatSpecial::Newline),
                Some('r') => Some(FormatSpecial::CarriageReturn),
                Some('t') => Some(FormatSpecial::TabHorizontal),
                Some('v') => Some(FormatSpecial::TabVertical),
                Some('\\') => Some(FormatSpecial::Backslash),
                _ => None,
            };
            match sp {
                Some(s) => {
                    v.push(FormatElement::Special(s));
                    i += 2;
                }
                None => {
                    v.push(FormatElement::Special(FormatSpecial::Backslash));
                    i += 1;
                }
            }
            continue;
        }
        push_lit(&mut v, c);
        i += 1;
    }
    Ok(v)
}

pub fn fmtscan(s: &str) -> Fmt {
    let mut amb = false;
    let a = match scan(s, false, &mut amb) {
        Ok(v) => v,
        Err(f) => return f,
    };
    if !amb {
        return Fmt::Ok(a);
    }
    let mut amb2 = false;
    match scan(s, true, &mut amb2) {
        Ok(b) => Fmt::Either(a, b),
        Err(f) => f,
    }
}

// ---------------------------------------------------------------------------------------------
// vocabulary

#[derive(Clone, Copy, Debug, PartialEq)]
pub enum Lang {
    None,
    Word,
    Word2,
    CountU32,
    CountU64,
    Size,
    TimeMin,
    TimeDay,
    Types,
    Perm,
    Format,
    WordFormat,
    PlainU32,
}

#[derive(Clone, Copy, Debug, PartialEq)]
pub enum Class {
    Test,
    Action,
    Option,
}

pub struct Kw {
    pub word: &'static str,
    pub lang: Lang,
    pub class: Class,
}

pub const VOCAB: &[Kw] = &[
    Kw { word: "-amin", lang: Lang::TimeMin, class: Class::Test },
    Kw { word: "-cmin", lang: Lang::TimeMin, class: Class::Test },
    Kw { word: "-mmin", lang: Lang::TimeMin, class: Class::Test },
    Kw { word: "-atime", lang: Lang::TimeDay, class: Class::Test },
    Kw { word: "-ctime", lang: Lang::TimeDay, class: Class::Test },
    Kw { word: "-mtime", lang: Lang::TimeDay, class: Class::Test },
    Kw { word: "-anewer", lang: Lang::Word, class: Class::Test },
    Kw { word: "-cnewer", lang: Lang::Word, class: Class::Test },
    Kw { word: "-mnewer", lang: Lang::Word, class: Class::Test },
    Kw { word: "-empty", lang: Lang::None, class: Class::Test },
    Kw { word: "-executable", lang: Lang::None, class: Class::Test },
    Kw { word: "-readable", lang: Lang::None, class: Class::Test },
    Kw { word: "-writable", lang: Lang::None, class: Class::Test },
    Kw { word: "-true", lang: Lang::None, class: Class::Test },
    Kw { word: "-false", lang: Lang::None, class: Class::Test },
    Kw { word: "-nouser", lang: Lang::None, class: Class::Test },
    Kw { word: "-nogroup", lang: Lang::None, class: Class::Test },
    Kw { word: "-fstype", lang: Lang::Word, class: Class::Test },
    Kw { word: "-group", lang: Lang::Word, class: Class::Test },
    Kw { word: "-user", lang: Lang::Word, class: Class::Test },
    Kw { word: "-ilname", lang: Lang::Word, class: Class::Test },
    Kw { word: "-iregex", lang: Lang::Word, class: Class::Test },
    Kw { word: "-regex", lang: Lang::Word, class: Class::Test },
    Kw { word: "-samefile", lang: Lang::Word, class: Class::Test },
    Kw { word: "-gid", lang: Lang::CountU32, class: Class::Test },
    Kw { word: "-uid", lang: Lang::CountU32, class: Class::Test },
    Kw { word: "-inum", lang: Lang::CountU32, class: Class::Test },
    Kw { word: "-mirror-count", lang: Lang::CountU32, class: Class::Test },
    Kw { word: "-stripe-count", lang: Lang::CountU32, class: Class::Test },
    Kw { word: "-links", lang: Lang::CountU64, class: Class::Test },
    Kw { word: "-iname", lang: Lang::Word, class: Class::Test },
    Kw { word: "-ipath", lang: Lang::Word, class: Class::Test },
    Kw { word: "-name", lang: Lang::Word, class: Class::Test },
    Kw { word: "-path", lang: Lang::Word, class: Class::Test },
    Kw { word: "-pool", lang: Lang::Word, class: Class::Test },
    Kw { word: "-xattr", lang: Lang::Word, class: Class::Test },
    Kw { word: "-xattr-match", lang: Lang::Word2, class: Class::Test },
    Kw { word: "-perm", lang: Lang::Perm, class: Class::Test },
    Kw { word: "-size", lang: Lang::Size, class: Class::Test },
    Kw { word: "-type", lang: Lang::Types, class: Class::Test },
    Kw { word: "-print", lang: Lang::None, class: Class::Action },
    Kw { word: "-print0", lang: Lang::None, class: Class::Action },
    Kw { word: "-print-file-fid", lang: Lang::None, class: Class::Action },
    Kw { word: "-quit", lang: Lang::None, class: Class::Action },
    Kw { word: "-printf", lang: Lang::Format, class: Class::Action },
    Kw { word: "-fprint", lang: Lang::Word, class: Class::Action },
    Kw { word: "-fprint0", lang: Lang::Word, class: Class::Action },
    Kw { word: "-fprintf", lang: Lang::WordFormat, class: Class::Action },
    Kw { word: "-ls", lang: Lang::None, class: Class::Action },
    Kw { word: "-prune", lang: Lang::None, class: Class::Action },
    Kw { word: "-fls", lang: Lang::Word, class: Class::Action },
    Kw { word: "-depth", lang: Lang::None, class: Class::Option },
    Kw { word: "-threads", lang: Lang::PlainU32, class: Class::Option },
    Kw { word: "-maxdepth", lang: Lang::PlainU32, class: Class::Option },
    Kw { word: "-mindepth", lang: Lang::PlainU32, class: Class::Option },
];

pub const OPERATOR_WORDS: &[&str] = &["(", ")", "!", ",", "-a", "-and", "-o", "-or"];

pub fn keyword(w: &str) -> Option<&'static Kw> {
    VOCAB.iter().find(|k| k.word == w)
}

pub fn arity(l: Lang) -> usize {
    match l {
        Lang::None => 0,
        Lang::Word2 | Lang::WordFormat => 2,
        _ => 1,
    }
}

enum Built {
    Prim(Expression),
    PrimMayRefuse(Expression),
    Opt(GlobalOption),
    NotMember(String),
    Unspec(String),
}

/// right syntax for the numeric language (value range aside)?
fn numeric_syntax_ok(l: Lang, s: &str) -> bool {
    let (sign, body) = split_sign(s);
    match l {
        Lang::CountU32 | Lang::CountU64 => all_digits(body),
        Lang::PlainU32 => sign == 0 && all_digits(body),
        Lang::Size => {
            let d = body.trim_end_matches(|c| "bcwkMGT".contains(c));
            all_digits(d) && body.len() - d.len() <= 1
        }
        Lang::TimeMin | Lang::TimeDay => {
            let d = body.trim_end_matches(|c| "smhd".contains(c));
            all_digits(d) && body.len() - d.len() <= 1
        }
        _ => false,
    }
}

fn numeric_lang(l: Lang) -> bool {
    matches!(l, Lang::CountU32 | Lang::CountU64 | Lang::Size | Lang::TimeMin | Lang::TimeDay | Lang::PlainU32 | Lang::Types)
}

fn fmt_arg(w: &RawWord) -> Result<Vec<FormatElement>, Built> {
    match fmtscan(&w.text) {
        Fmt::Ok(v) => Ok(v),
        Fmt::Either(_, _) => Err(Built::Unspec("one- or two-digit octal escape".into())),
        Fmt::Err => Err(Built::NotMember("format string with an undocumented % directive".into())),
        Fmt::Unspecified(s) => Err(Built::Unspec(s)),
    }
}

fn build(kw: &Kw, args: &[RawWord]) -> Built {
    if numeric_lang(kw.lang) && args[0].quoted {
        return Built::Unspec("quoted numeric or type argument".into());
    }
    let a0 = args.get(0).map(|w| w.text.as_str()).unwrap_or("");
    let s0 = a0.to_string();
    macro_rules! nm {
        () => {
            Built::NotMember(format!("argument {:?} of {} is not in its argument language", a0, kw.word))
        };
    }
    if matches!(kw.lang, Lang::TimeMin | Lang::TimeDay) {
        if let Some(c) = arg_time(a0, kw.lang == Lang::TimeDay) {
            let (Comparison::Equal(ts) | Comparison::GreaterThan(ts) | Comparison::LesserThan(ts)) = &c;
            let (n, unit): (u128, u128) = match ts {
                TimeSpec::Second(n) => (*n as u128, 1),
                TimeSpec::Minute(n) => (*n as u128, 60),
                TimeSpec::Hour(n) => (*n as u128, 3600),
                TimeSpec::Day(n) => (*n as u128, 86400),
            };
            if n * unit > u64::MAX as u128 {
                return Built::Unspec("time count whose span in seconds exceeds 64 bits (may be carried or refused)".into());
            }
        }
    }
    let e = match kw.word {
        "-amin" | "-atime" => match arg_time(a0, kw.word == "-atime") {
            Some(c) => t(Test::AccessTime(c)),
            None => return nm!(),
        },
        "-cmin" | "-ctime" => match arg_time(a0, kw.word == "-ctime") {
            Some(c) => t(Test::ChangeTime(c)),
            None => return nm!(),
        },
        "-mmin" | "-mtime" => match arg_time(a0, kw.word == "-mtime") {
            Some(c) => t(Test::ModifyTime(c)),
            None => return nm!(),
        },
        "-anewer" => t(Test::AccessNewer(s0)),
        "-cnewer" => t(Test::ChangeNewer(s0)),
        "-mnewer" => t(Test::ModifyNewer(s0)),
        "-empty" => t(Test::Empty),
        "-executable" => t(Test::Executable),
        "-readable" => t(Test::Readable),
        "-writable" => t(Test::Writable),
        "-true" => t(Test::True),
        "-false" => t(Test::False),
        "-nouser" => t(Test::NoUser),
        "-nogroup" => t(Test::NoGroup),
        "-fstype" => t(Test::FsType(s0)),
        "-group" => t(Test::Group(s0)),
        "-user" => t(Test::User(s0)),
        "-ilname" => t(Test::InsensitiveLinkName(s0)),
        "-iregex" => t(Test::InsensitiveRegex(s0)),
        "-regex" => t(Test::Regex(s0)),
        "-samefile" => t(Test::Samefile(s0)),
        "-gid" | "-uid" | "-inum" | "-mirror-count" | "-stripe-count" => match arg_count_u32(a0) {
            Some(c) => t(match kw.word {
                "-gid" => Test::GroupId(c),
                "-uid" => Test::UserId(c),
                "-inum" => Test::InodeNumber(c),
                "-mirror-count" => Test::MirrorCount(c),
                _ => Test::StripeCount(c),
            }),
            None => return nm!(),
        },
        "-links" => match arg_count_u64(a0) {
            Some(c) => t(Test::Links(c)),
            None => return nm!(),
        },
        "-iname" => t(Test::InsensitiveName(s0)),
        "-ipath" => t(Test::InsensitivePath(s0)),
        "-name" => t(Test::Name(s0)),
        "-path" => t(Test::Path(s0)),
        "-pool" => t(Test::Pool(s0)),
        "-xattr" => t(Test::Xattr(s0)),
        "-xattr-match" => t(Test::XattrMatch(s0, args[1].text.clone())),
        "-perm" => match arg_perm(a0) {
            PermArg::Ok(p) => t(Test::Perm(p)),
            PermArg::OkIfAccepted(p) => return Built::PrimMayRefuse(t(Test::Perm(p))),
            PermArg::NotMember => return nm!(),
            PermArg::Unspecified(s) => return Built::Unspec(s),
        },
        "-size" => match arg_size(a0) {
            Some(c) => t(Test::Size(c)),
            None => return nm!(),
        },
        "-type" => match arg_types(a0) {
            Some(l) => t(Test::Type(l)),
            None => return nm!(),
        },
        "-print" => act(Action::Print),
        "-print0" => act(Action::PrintNull),
        "-print-file-fid" => act(Action::PrintFid),
        "-quit" => act(Action::Quit),
        "-ls" => act(Action::List),
        "-prune" => act(Action::Prune),
        "-fls" => act(Action::FileList(s0)),
        "-fprint" => act(Action::FilePrint(s0)),
        "-fprint0" => act(Action::FilePrintNull(s0)),
        "-printf" => match fmt_arg(&args[0]) {
            Ok(f) => act(Action::PrintFormatted(f)),
            Err(b) => return b,
        },
        "-fprintf" => match fmt_arg(&args[1]) {
            Ok(f) => act(Action::FilePrintFormatted(s0, f)),
            Err(b) => return b,
        },
        "-depth" => return Built::Opt(GlobalOption::Depth),
        "-threads" | "-maxdepth" | "-mindepth" => match arg_plain_u32(a0) {
            Some(v) => {
                return Built::Opt(match kw.word {
                    "-threads" => GlobalOption::Threads(v),
                    "-maxdepth" => GlobalOption::MaxDepth(v),
                    _ => GlobalOption::MinDepth(v),
                })
            }
            None => return nm!(),
        },
        _ => return Built::Unspec("keyword without a constructor".into()),
    };
    Built::Prim(e)
}

/// Words -> tokens. Also returns, for error-attribution checks (C18), where it failed.
#[derive(Clone, Debug, PartialEq)]
pub enum Failure {
    /// a word that is no keyword at all
    UnknownWord(String),
    /// keyword whose argument is missing (end of input or a closing parenthesis)
    MissingArgument(&'static str),
    /// keyword with an argument word outside its language
    BadArgument(&'static str, String),
    /// numeric argument of the right syntax whose value does not fit the field (may be refused by
    /// parse or by compile)
    OutOfRange(&'static str, String),
    Other(String),
}

pub struct Lexed {
    pub toks: Vec<Tok>,
    pub may_refuse: bool,
}

pub fn lex(text: &str) -> Result<Lexed, (Spec, Option<Failure>)> {
    let cs: Vec<char> = text.chars().collect();
    let mut lx = Lx { cs: &cs, i: 0 };
    let mut toks = vec![];
    let mut may_refuse = false;
    let unspec = |s: String| (Spec::Unspecified(s), None);
    loop {
        match lx.skip_blank() {
            Ok(()) => {}
            Err(LexErr::Unspec(s)) => return Err(unspec(s)),
            Err(LexErr::Err(s)) => return Err((Spec::Err(s), None)),
        }
        if lx.at_end() {
            break;
        }
        let c = cs[lx.i];
        if c == '(' {
            toks.push(Tok::LParen);
            lx.i += 1;
            continue;
        }
        if c == ')' {
            toks.push(Tok::RParen);
            lx.i += 1;
            continue;
        }
        if c == '!' || c == ',' {
            let next = cs.get(lx.i + 1).copied();
            match next {
                None => {}
                Some(n) if is_blank(n) => {}
                Some(_) => return Err(unspec(format!("'{}' glued to the following text", c))),
            }
            toks.push(if c == '!' { Tok::Not } else { Tok::Comma });
            lx.i += 1;
            continue;
        }
        let w = match lx.raw_word(false) {
            Ok(w) => w,
            Err(LexErr::Unspec(s)) => return Err(unspec(s)),
            Err(LexErr::Err(s)) => return Err((Spec::Err(s), None)),
        };
        if w.quoted {
            return Err(unspec("quoted word in keyword position".into()));
        }
        if w.text.ends_with('(') || w.text.contains('(') {
            return Err(unspec("'(' inside a keyword-position word".into()));
        }
        match w.text.as_str() {
            "-a" | "-and" => {
                toks.push(Tok::And);
                if lx.i < cs.len() && cs[lx.i] == ')' {
                    return Err(unspec("operator word glued to ')'".into()));
                }
                continue;
            }
            "-o" | "-or" => {
                toks.push(Tok::Or);
                if lx.i < cs.len() && cs[lx.i] == ')' {
                    return Err(unspec("operator word glued to ')'".into()));
                }
                continue;
            }
            _ => {}
        }
        let kw = match keyword(&w.text) {
            Some(k) => k,
            None => {
                if w.text == "nope" {
                    return Err(unspec("the stub word 'nope'".into()));
                }
                return Err((Spec::Err(format!("{:?} is not a keyword", w.text)), Some(Failure::UnknownWord(w.text))));
            }
        };
        let mut args = vec![];
        for _ in 0..arity(kw.lang) {
            match lx.skip_blank() {
                Ok(()) => {}
                Err(LexErr::Unspec(s)) => return Err(unspec(s)),
                Err(LexErr::Err(s)) => return Err((Spec::Err(s), None)),
            }
            if lx.at_end() || cs[lx.i] == ')' {
                return Err((Spec::Err(format!("missing argument of {}", kw.word)), Some(Failure::MissingArgument(kw.word))));
            }
            // the blank between keyword and argument is mandatory: guaranteed because a bare keyword word
            // only ends at a blank or ')'
            match lx.raw_word(true) {
                Ok(w) => args.push(w),
                Err(LexErr::Unspec(s)) => return Err(unspec(s)),
                Err(LexErr::Err(s)) => return Err((Spec::Err(s), Some(Failure::Other("glued quote".into())))),
            }
        }
        match build(kw, &args) {
            Built::Prim(e) => toks.push(Tok::Prim(e)),
            Built::PrimMayRefuse(e) => {
                may_refuse = true;
                toks.push(Tok::Prim(e))
            }
            Built::Opt(o) => toks.push(Tok::Opt(o)),
            Built::NotMember(s) => {
                let bad = if kw.lang == Lang::WordFormat { args[1].text.clone() } else { args[0].text.clone() };
                if numeric_syntax_ok(kw.lang, &bad) {
                    return Err((Spec::Err(s), Some(Failure::OutOfRange(kw.word, bad))));
                }
                return Err((Spec::Err(s), Some(Failure::BadArgument(kw.word, bad))));
            }
            Built::Unspec(s) => return Err(unspec(s)),
        }
    }
    Ok(Lexed { toks, may_refuse })
}

// ---------------------------------------------------------------------------------------------
// grammar (recursive descent over tokens)

struct Gp<'a> {
    t: &'a [Tok],
    i: usize,
}

impl<'a> Gp<'a> {
    fn list(&mut self) -> Option<Expression> {
        let mut acc = self.or()?;
        while self.t.get(self.i) == Some(&Tok::Comma) {
            self.i += 1;
            let r = self.or()?;
            acc = list(acc, r);
        }
        Some(acc)
    }
    fn or(&mut self) -> Option<Expression> {
        let mut acc = self.and()?;
        while self.t.get(self.i) == Some(&Tok::Or) {
            self.i += 1;
            let r = self.and()?;
            acc = or(acc, r);
        }
        Some(acc)
    }
    fn and(&mut self) -> Option<Expression> {
        let mut acc = self.unary()?;
        loop {
            match self.t.get(self.i) {
                Some(Tok::And) => {
                    self.i += 1;
                    let r = self.unary()?;
                    acc = and(acc, r);
                }
                Some(Tok::Not) | Some(Tok::LParen) | Some(Tok::Prim(_)) => {
                    let r = self.unary()?;
                    acc = and(acc, r);
                }
                _ => return Some(acc),
            }
        }
    }
    fn unary(&mut self) -> Option<Expression> {
        match self.t.get(self.i) {
            Some(Tok::Not) => {
                self.i += 1;
                Some(not(self.unary()?))
            }
            Some(Tok::LParen) => {
                self.i += 1;
                let e = self.list()?;
                if self.t.get(self.i) != Some(&Tok::RParen) {
                    return None;
                }
                self.i += 1;
                Some(e)
            }
            Some(Tok::Prim(e)) => {
                self.i += 1;
                Some(e.clone())
            }
            _ => None,
        }
    }
}

/// Sentence of the operator grammar -> tree; None otherwise. Tok::Opt must have been replaced.
pub fn grammar(toks: &[Tok]) -> Option<Expression> {
    let mut p = Gp { t: toks, i: 0 };
    let e = p.list()?;
    if p.i != toks.len() {
        return None;
    }
    Some(e)
}

/// Second, independent characterisation of the sentences (operator-precedence style): balanced
/// parentheses + allowed-follower table + first/last symbol classes. Must agree with `grammar`.
pub fn is_sentence_table(toks: &[Tok]) -> bool {
    #[derive(PartialEq, Clone, Copy)]
    enum K {
        Open,
        Close,
        Not,
        Bin,
        Prim,
    }
    let ks: Vec<K> = toks
        .iter()
        .map(|t| match t {
            Tok::LParen => K::Open,
            Tok::RParen => K::Close,
            Tok::Not => K::Not,
            Tok::Comma | Tok::And | Tok::Or => K::Bin,
            Tok::Prim(_) | Tok::Opt(_) => K::Prim,
        })
        .collect();
    if ks.is_empty() {
        return false;
    }
    if !matches!(ks[0], K::Open | K::Not | K::Prim) {
        return false;
    }
    if !matches!(ks[ks.len() - 1], K::Close | K::Prim) {
        return false;
    }
    let mut depth = 0i64;
    for (i, k) in ks.iter().enumerate() {
        match k {
            K::Open => depth += 1,
            K::Close => {
                depth -= 1;
                if depth < 0 {
                    return false;
                }
            }
            _ => {}
        }
        if i + 1 < ks.len() {
            let n = ks[i + 1];
            let ok = match k {
                K::Open | K::Not | K::Bin => matches!(n, K::Open | K::Not | K::Prim),
                K::Close | K::Prim => true && !matches!((k, n), (_, _) if false),
            };
            if !ok {
                return false;
            }
            // after Close/Prim anything may follow: Close, Bin, or (implicit AND) Open/Not/Prim
        }
    }
    depth == 0
}

pub fn parse(text: &str) -> Spec {
    parse_detail(text).0
}

pub fn parse_detail(text: &str) -> (Spec, Option<Failure>) {
    let lexed = match lex(text) {
        Ok(l) => l,
        Err((s, f)) => return (s, f),
    };
    let mut depth = false;
    let mut threads = None;
    let mut limits = vec![];
    let mut reg = |o: &GlobalOption| match o {
        GlobalOption::Depth => depth = true,
        GlobalOption::Threads(n) => threads = Some(*n),
        GlobalOption::MaxDepth(n) => limits.push((true, *n)),
        GlobalOption::MinDepth(n) => limits.push((false, *n)),
    };
    let may_refuse = lexed.may_refuse;
    let mut inner_options = false;
    let mut toks = vec![];
    let mut leading = true;
    for tk in lexed.toks {
        match tk {
            Tok::Opt(o) => {
                reg(&o);
                if !leading {
                    inner_options = true;
                    toks.push(Tok::Prim(t(Test::True)));
                }
            }
            other => {
                leading = false;
                toks.push(other);
            }
        }
    }
    if toks.is_empty() {
        return (Spec::Ok(SpecOk { depth, threads, depth_limits: limits, may_refuse, inner_options, tree: t(Test::True) }), None);
    }
    match grammar(&toks) {
        Some(tree) => (Spec::Ok(SpecOk { depth, threads, depth_limits: limits, may_refuse, inner_options, tree }), None),
        None => (Spec::Err("not a sentence of the operator grammar".into()), Some(Failure::Other("grammar".into()))),
    }
}

#[cfg(test)]
mod tests {
    use super::*;
    #[test]
    fn basics() {
        match parse("-true -o -false -a -name test") {
            Spec::Ok(o) => assert_eq!(o.tree, or(t(Test::True), and(t(Test::False), t(Test::Name("test".into()))))),
            other => panic!("{:?}", other),
        }
        assert!(matches!(parse("-true -a"), Spec::Err(_)));
        assert!(matches!(parse("-uid 5x"), Spec::Err(_)));
        assert!(matches!(parse("-perm 777,u+x"), Spec::Err(_)));
        assert!(matches!(parse("   "), Spec::Ok(_)));
        assert_eq!(chmod_symbolic("u+rwx,u-r"), Some(0o300));
        assert_eq!(chmod_symbolic_d1("u+rwx,u-r"), Some(0o400));
    }
}
