//! Guarded calls into the library under test: every call runs under catch_unwind and a panic is
//! returned as a value (message + location), never allowed to take the harness down.

use lipe_find_parser::ast::Expression;
use lipe_find_parser::{compile, parse, RunOptions, Target};
use std::cell::RefCell;
use std::collections::HashMap;
use std::panic::{catch_unwind, AssertUnwindSafe};

thread_local! {
    static LAST_PANIC: RefCell<Option<String>> = RefCell::new(None);
    static IN_GUARD: RefCell<bool> = RefCell::new(false);
}

pub fn install_hook() {
    let prev = std::panic::take_hook();
    std::panic::set_hook(Box::new(move |info| {
        let guarded = IN_GUARD.with(|g| *g.borrow());
        if guarded {
            let msg = if let Some(s) = info.payload().downcast_ref::<&str>() {
                s.to_string()
            } else if let Some(s) = info.payload().downcast_ref::<String>() {
                s.clone()
            } else {
                "<non-string panic payload>".to_string()
            };
            let loc = info.location().map(|l| format!("{}:{}", l.file(), l.line())).unwrap_or_default();
            LAST_PANIC.with(|p| *p.borrow_mut() = Some(format!("{} @ {}", msg, loc)));
        } else {
            prev(info);
        }
    }));
}

#[derive(Clone, Debug, PartialEq)]
pub struct Panic(pub String);

impl Panic {
    /// Location-free signature: file name + message head (line numbers move with edits).
    pub fn sig(&self) -> String {
        let (msg, loc) = match self.0.rsplit_once(" @ ") {
            Some((m, l)) => (m, l),
            None => (self.0.as_str(), ""),
        };
        let file = loc.rsplit_once(':').map(|(f, _)| f).unwrap_or(loc);
        let file = file.rsplit('/').next().unwrap_or(file);
        let head: String = msg.chars().take(40).collect();
        format!("panic:{}:{}", file, head.split(':').next().unwrap_or(""))
    }
}

pub fn guard<T>(f: impl FnOnce() -> T) -> Result<T, Panic> {
    IN_GUARD.with(|g| *g.borrow_mut() = true);
    let r = catch_unwind(AssertUnwindSafe(f));
    IN_GUARD.with(|g| *g.borrow_mut() = false);
    match r {
        Ok(v) => Ok(v),
        Err(_) => Err(Panic(LAST_PANIC.with(|p| p.borrow_mut().take()).unwrap_or_else(|| "<panic>".into()))),
    }
}

pub type Parsed = Result<(RunOptions, Expression), String>;

pub fn parse_g(text: &str) -> Result<Parsed, Panic> {
    guard(|| match parse(text) {
        Ok(v) => Ok(v),
        Err(e) => Err(e.to_string()),
    })
}

#[derive(Clone, Debug, PartialEq)]
pub struct Compiled {
    pub text: String,
    pub io_map: Option<HashMap<u32, Target>>,
}

pub fn now_secs() -> i128 {
    std::time::SystemTime::now().duration_since(std::time::UNIX_EPOCH).unwrap().as_secs() as i128
}

/// compile + scheme(mdt) + io_map(), with the clock read before and after.
pub fn compile_g(e: &Expression, opts: &RunOptions, mdt: &str) -> Result<(Result<Compiled, String>, i128, i128), Panic> {
    guard(|| {
        let t0 = now_secs();
        let r = compile(e, opts);
        let t1 = now_secs();
        let out = match r {
            Ok(c) => Ok(Compiled { text: c.scheme(mdt), io_map: c.io_map() }),
            Err(e) => Err(e.to_string()),
        };
        (out, t0, t1)
    })
}

pub fn opts_default() -> RunOptions {
    RunOptions::default()
}

/// Options as an input of compile(): default, explicit thread counts, depth - chosen by a case key.
pub fn opts_for(key: u64) -> RunOptions {
    let mut o = RunOptions::default();
    match key % 4 {
        1 => o.threads = Some(1 + (key / 4 % 16) as u32),
        2 => {
            o.threads = Some(1);
            o.depth = true;
        }
        3 => o.depth = true,
        _ => {}
    }
    o
}

pub fn io_map_sorted(m: &Option<HashMap<u32, Target>>) -> String {
    match m {
        None => "None".to_string(),
        Some(m) => {
            let mut v: Vec<_> = m.iter().collect();
            v.sort_by_key(|(k, _)| **k);
            format!("{:?}", v)
        }
    }
}
