//! Workload generators: expression trees through the public constructors, a spec-side text renderer
//! (own precedence table and quoting rules), and file records directed at a tree's constants.

use crate::findsem::{size_parts, time_parts, type_bits};
use crate::rec::{FileRecord, TYPES};
use crate::rng::Rng;
use lipe_find_parser::ast::*;
use lipe_find_parser::Mode;
use std::rc::Rc;

pub fn t(x: Test) -> Expression {
    Expression::Test(x)
}
pub fn act(a: Action) -> Expression {
    Expression::Action(a)
}
pub fn not(e: Expression) -> Expression {
    Expression::Operator(Rc::new(Operator::Not(e)))
}
pub fn and(a: Expression, b: Expression) -> Expression {
    Expression::Operator(Rc::new(Operator::And(a, b)))
}
pub fn or(a: Expression, b: Expression) -> Expression {
    Expression::Operator(Rc::new(Operator::Or(a, b)))
}
pub fn list(a: Expression, b: Expression) -> Expression {
    Expression::Operator(Rc::new(Operator::List(a, b)))
}
pub fn prec(a: Expression) -> Expression {
    Expression::Operator(Rc::new(Operator::Precedence(a)))
}

pub const NAME_POOL: &[&str] = &[
    "a", "b", "file1.txt", "FILE1.TXT", "*.txt", "f?le*", "[a-f]*", "data", "Data", "*", "x.y", "sub",
    // names and patterns people special-case: hidden files, match-everything spellings, well-known names
    ".*", ".hidden", "*.*", "?", "**", "[!a]*", "core", "lost+found", "Makefile", "*~", ".", "..", "-", "*.o", "*.tar.gz",
    // letters only outside ASCII (case rules must not depend on finding an ASCII letter)
    "\u{f1}and\u{fa}", "\u{436}\u{443}\u{43a}", "\u{416}\u{423}\u{41a}*", "\u{e9}.\u{e9}", "\u{3b1}\u{3b2}?", "1\u{e9}2",
];
pub const FILE_POOL: &[&str] = &["out.txt", "a", "b", "c", "list.out", "dir/f", "./a", "A", "a/", " b", "/dev/stdout", "-", "/dev/stderr", "stdout", "-print", "-true", "-o", "!", "-depth"];

/// User strings that spell pieces of the program the library emits (generated names, primitives, special
/// forms, the frame separator): code that scans its own output text - to count parentheses, to find out
/// whether something was emitted, to check that a name is bound once - trips over them.
pub fn program_spellings() -> Vec<String> {
    let mut v: Vec<String> = [
        "%lf3:match:1", "%lf3:match:2", "%lf3:print:2", "%lf3:print:3", "%lf3:port:0", "%lf3:mutex:1", "%lf3:frame:2", "(%lf3:match:1 (x", "(%lf3:print:2 (lambda (s)", "(%lf3:port:0 (current-output-port))",
        "(lipe-scan-break 0)", "(lipe-scan-break ", "(lipe-scan", "(print-relative-path)", "(print-file-fid)", "(call-with-name ", "(call-with-relative-path %lf3:print:2)", "(make-printer ", "(make-mutex)", "(with-mutex ",
        "(use-modules (lipe) (lipe find))", "(ice-9 threads)", "(let* (", "(lambda () ", "(lambda (", "(dynamic-wind", "(define ", "(and ", "(or ", "(not ", "#t", "#f", "#t)", "(and #t", "(display ", "(format #f \"~a\" ",
        "(current-output-port)", "(open-file ", "(close-port ", "(lipe-getopt-thread-count)", "(lipe-getopt-client-mount-path)", "(lipe-getopt-required-attrs)", "(fnmatch? ", "(streq? ", "(quotient (- ", "(logand (mode) 4095)",
        "#\\x1e", "#\\x02", ";; ", "#| ", " |#", "#;", "'()", "`(,x)", "))", "((", ")))))", "(((((", ")(", "\")", "\" \"", "\\\")",
    ]
    .iter()
    .map(|s| s.to_string())
    .collect();
    for n in [0, 1, 2, 3, 9, 10, 16, 255, 256] {
        v.push(format!("%lf3:match:{}", n));
        v.push(format!("(%lf3:print:{} ", n));
    }
    v
}

/// Ways people write numbers and quantities that are NOT plain decimal digits plus one documented unit
/// letter: fractions, separators, exponents, radix prefixes, doubled signs, SI / IEC / word units, non-ASCII
/// digits. `{}` stands for the digits. Every one of them is outside the argument languages (C05) and would
/// be "carried as a different number" if accepted (C07), unless the reference says otherwise.
pub const NOTATIONS: &[&str] = &[
    "{}.5", "{}.0", "{}.", ".{}", "{},5", "{},000", "{}_000", "{} 000", "{}e3", "{}E3", "{}e0", "0x{}", "0X{}", "0o{}", "0b{}", "#x{}", "{}h0", "++{}", "--{}", "+-{}", "-+{}", "{}-", "{}+", "+ {}", "{}%", "{}/2", "{}*2", "({})",
    "{}iB", "{}KiB", "{}MiB", "{}GiB", "{}TiB", "{}kiB", "{}KB", "{}kB", "{}MB", "{}GB", "{}TB", "{}Mb", "{}B", "{}K", "{}m", "{}g", "{}t", "{}P", "{}E", "{}kk", "{}Mi", "{}Ki", "{}bytes", "{}blocks",
    "{}ms", "{}us", "{}sec", "{}secs", "{}min", "{}mins", "{}hr", "{}hrs", "{}hour", "{}day", "{}days", "{}w", "{}wk", "{}y", "{}yr", "{}M", "{}S", "{}D", "{}H", "{}dd", "{}d1", "{}d ", "{}s5",
    "\u{661}\u{662}", "\u{ff11}\u{ff12}", "{}\u{b2}", "\u{bd}", "{}\u{a0}", "\u{2212}{}", "\u{ff0b}{}", "{}L", "{}u", "{}U", "{}ul", "{}f", "{}n", "0{}.", "1{}e", "{}'", "{}\u{2009}000", "inf", "max", "-0x1", "NaN", "∞",
];

/// Numbers with a meaning to people rather than to machines (decimal round numbers, unit sizes, well-known
/// ids): a "common case" fast path is keyed on such values.
pub const MAGIC: [u64; 24] = [10, 60, 99, 100, 255, 256, 365, 500, 512, 999, 1000, 1023, 1024, 3600, 4096, 65534, 65535, 65536, 86400, 100_000, 1_000_000, 1_048_576, 1_000_000_000, 1_073_741_824];

pub fn boundary_u64(r: &mut Rng) -> u64 {
    if r.chance(1, 12) {
        return *r.pick(&MAGIC);
    }
    match r.below(10) {
        0 => 0,
        1 => 1,
        2 => r.below(10),
        3 => r.below(2000),
        4 => (1u64 << 31) - 1 + r.below(3),
        5 => (1u64 << 32) - 2 + r.below(4),
        6 => (1u64 << 63) - 1 + r.below(3),
        7 => u64::MAX - r.below(3),
        8 => r.next() >> r.below(64),
        _ => r.below(100),
    }
}

pub fn boundary_u32(r: &mut Rng) -> u32 {
    if r.chance(1, 10) {
        return *r.pick(&MAGIC) as u32;
    }
    match r.below(8) {
        0 => 0,
        1 => 1,
        2 => r.below(10) as u32,
        3 => r.below(70000) as u32,
        4 => ((1u64 << 31) - 1 + r.below(3)) as u32,
        5 => u32::MAX - r.below(3) as u32,
        6 => (r.next() >> 32) as u32 >> r.below(32),
        _ => r.below(100) as u32,
    }
}

pub fn gen_cmp<T>(r: &mut Rng, v: T) -> Comparison<T> {
    match r.below(3) {
        0 => Comparison::Equal(v),
        1 => Comparison::GreaterThan(v),
        _ => Comparison::LesserThan(v),
    }
}

pub fn gen_size(r: &mut Rng) -> Size {
    let unit = r.below(7);
    let max = u64::MAX / crate::findsem::UNITS_SIZE[unit as usize].1;
    let n = match r.below(6) {
        0 => max - r.below(2),
        1 => 0,
        _ => boundary_u64(r) % (max / 2 + 1),
    }
    .min(max);
    mk_size(unit, n)
}

pub fn mk_size(unit: u64, n: u64) -> Size {
    match unit {
        0 => Size::Byte(n),
        1 => Size::Word(n),
        2 => Size::Block(n),
        3 => Size::KiloByte(n),
        4 => Size::MegaByte(n),
        5 => Size::GigaByte(n),
        _ => Size::TeraByte(n),
    }
}

pub fn mk_time(unit: u64, n: u64) -> TimeSpec {
    match unit {
        0 => TimeSpec::Second(n),
        1 => TimeSpec::Minute(n),
        2 => TimeSpec::Hour(n),
        _ => TimeSpec::Day(n),
    }
}

pub fn gen_time(r: &mut Rng) -> TimeSpec {
    let n = match r.below(6) {
        0 => 0,
        1 => 1,
        2 => r.below(100),
        3 => r.below(20000),
        4 => *r.pick(&[7u64, 14, 24, 30, 31, 60, 90, 180, 365, 366, 1440, 3600, 10080, 86400]),
        _ => r.below(5),
    };
    mk_time(r.below(4), n)
}

pub fn gen_types(r: &mut Rng) -> Vec<FileType> {
    let all = [FileType::Block, FileType::Character, FileType::Directory, FileType::Pipe, FileType::File, FileType::Link, FileType::Socket];
    let n = 1 + r.below(3);
    (0..n).map(|_| r.pick(&all).clone()).collect()
}

pub fn gen_mode(r: &mut Rng) -> Mode {
    let bits = match r.below(5) {
        0 => 0o644,
        1 => 1 << r.below(12),
        2 => 0o7777,
        3 => 0,
        _ => r.below(0o10000) as u32,
    };
    Mode::from_bits(bits).unwrap()
}

pub fn gen_perm(r: &mut Rng) -> PermCheck {
    let p = Permission(gen_mode(r));
    match r.below(3) {
        0 => PermCheck::Equal(p),
        1 => PermCheck::AtLeast(p),
        _ => PermCheck::Any(p),
    }
}

pub const SUPPORTED_FIELDS: usize = 33;
pub fn field_by_index(i: usize, r: &mut Rng) -> FormatField {
    let k = *r.pick(&['@', 'H', 'Y', 'd', 'T', 's']);
    match i {
        0 => FormatField::Percent,
        1 => FormatField::Access,
        2 => FormatField::AccessFormatted(k),
        3 => FormatField::DiskSizeBlocks,
        4 => FormatField::Change,
        5 => FormatField::ChangeFormatted(k),
        6 => FormatField::Basename,
        7 => FormatField::Group,
        8 => FormatField::GroupId,
        9 => FormatField::Parents,
        10 => FormatField::StartingPoint,
        11 => FormatField::InodeDecimal,
        12 => FormatField::DiskSizeKilos,
        13 => FormatField::PermissionsOctal,
        14 => FormatField::Hardlinks,
        15 => FormatField::Name,
        16 => FormatField::NameWithoutStartingPoint,
        17 => FormatField::DiskSizeBytes,
        18 => FormatField::Sparseness,
        19 => FormatField::Modify,
        20 => FormatField::ModifyFormatted(k),
        21 => FormatField::User,
        22 => FormatField::UserId,
        23 => FormatField::Type,
        24 => FormatField::FileId,
        25 => FormatField::ProjectId,
        26 => FormatField::MirrorCount,
        27 => FormatField::StripeCount,
        28 => FormatField::StripeSize,
        29 => FormatField::XAttr(r.pick(&["user", "trusted", "lov"]).to_string()),
        30 => FormatField::AccessFormatted('@'),
        31 => FormatField::ChangeFormatted('@'),
        _ => FormatField::ModifyFormatted('@'),
    }
}

pub const UNSUPPORTED_FIELDS: usize = 7;
pub fn unsupported_field_by_index(i: usize) -> FormatField {
    match i {
        0 => FormatField::Depth,
        1 => FormatField::DeviceNumber,
        2 => FormatField::FsType,
        3 => FormatField::SymbolicTarget,
        4 => FormatField::PermissionsSymbolic,
        5 => FormatField::TypeSymlink,
        _ => FormatField::SecurityContext,
    }
}

pub fn special_by_index(i: usize, r: &mut Rng) -> FormatSpecial {
    match i {
        0 => FormatSpecial::Alarm,
        1 => FormatSpecial::Backspace,
        2 => FormatSpecial::Form,
        3 => FormatSpecial::Newline,
        4 => FormatSpecial::CarriageReturn,
        5 => FormatSpecial::TabHorizontal,
        6 => FormatSpecial::TabVertical,
        7 => FormatSpecial::Null,
        8 => FormatSpecial::Backslash,
        // the last six only exist in hand-built trees (the parser stops at \\777): no byte value, a surrogate
        // code point, the largest u16 - their meaning is unspecified, but compile() must still answer
        _ => FormatSpecial::Ascii(*r.pick(&[0o101u16, 0o040, 0o001, 0o177, 0o012, 0o060, 0o042, 0o134, 0o176, 0o045, 0o050, 0o000, 0o011, 0o200, 0o351, 0o377, 0o400, 0o777, 0x1000, 0xD800, 0xDFFF, 0xFFFF])),
    }
}

/// Parser-normal format list (no empty / adjacent literals, literals free of '%' and '\').
pub fn gen_format(r: &mut Rng, benign_only: bool) -> Vec<FormatElement> {
    let n = 1 + r.below(5);
    let mut v: Vec<FormatElement> = vec![];
    for _ in 0..n {
        match r.below(5) {
            0 if !matches!(v.last(), Some(FormatElement::Literal(_))) => {
                let lits = ["x", ",", " ", "abc", ":", "-", "size=", "p", "line\n", "\n", "~a", "q\"q", "caf\u{e9} ", "\u{4e2d}\u{6587}:", "\u{1f600}", "e\u{301}=", "\u{a0}"];
                v.push(FormatElement::Literal(r.pick(&lits).to_string()))
            }
            1 => {
                let mut s = special_by_index(r.usize(10), r);
                if benign_only {
                    if matches!(s, FormatSpecial::Null | FormatSpecial::Backslash | FormatSpecial::Ascii(_)) {
                        s = FormatSpecial::TabHorizontal;
                    }
                }
                v.push(FormatElement::Special(s))
            }
            _ => v.push(FormatElement::Field(field_by_index(r.usize(SUPPORTED_FIELDS), r))),
        }
    }
    if r.chance(1, 2) {
        v.push(FormatElement::Special(FormatSpecial::Newline));
    }
    // an octal escape directly followed by a literal starting with a digit is not parser-normal
    v
}

pub const SUPPORTED_TESTS: usize = 25;
pub fn gen_test_kind(k: usize, r: &mut Rng) -> Test {
    match k {
        0 => Test::AccessTime(gen_cmp_t(r)),
        1 => Test::ChangeTime(gen_cmp_t(r)),
        2 => Test::ModifyTime(gen_cmp_t(r)),
        3 => Test::Empty,
        4 => Test::Executable,
        5 => Test::False,
        6 => {
            let v = boundary_u32(r);
            Test::GroupId(gen_cmp(r, v))
        }
        7 => {
            let v = boundary_u32(r);
            Test::InodeNumber(gen_cmp(r, v))
        }
        8 => Test::InsensitiveName(r.pick(NAME_POOL).to_string()),
        9 => Test::InsensitivePath(format!("*{}", r.pick(NAME_POOL))),
        10 => {
            let v = boundary_u64(r);
            Test::Links(gen_cmp(r, v))
        }
        11 => {
            let v = boundary_u32(r);
            Test::MirrorCount(gen_cmp(r, v))
        }
        12 => Test::Name(r.pick(NAME_POOL).to_string()),
        13 => Test::Path(if r.chance(1, 2) { format!("dir*/{}", r.pick(NAME_POOL)) } else { r.pick(NAME_POOL).to_string() }),
        14 => Test::Perm(gen_perm(r)),
        15 => Test::Pool(r.pick(&["fast", "slow", "p1"]).to_string()),
        16 => Test::Readable,
        17 => {
            let s = gen_size(r);
            Test::Size(gen_cmp(r, s))
        }
        18 => {
            let v = boundary_u32(r);
            Test::StripeCount(gen_cmp(r, v))
        }
        19 => Test::True,
        20 => Test::Type(gen_types(r)),
        21 => {
            let v = boundary_u32(r);
            Test::UserId(gen_cmp(r, v))
        }
        22 => Test::Writable,
        23 => Test::Xattr(r.pick(&["user", "trusted", "lov"]).to_string()),
        _ => {
            let n = r.pick(&["user", "trusted", "us*", "lov"]).to_string();
            let v = r.pick(&["v1", "v*", "val", "?1"]).to_string();
            Test::XattrMatch(n, v)
        }
    }
}

fn gen_cmp_t(r: &mut Rng) -> Comparison<TimeSpec> {
    let t = gen_time(r);
    gen_cmp(r, t)
}

pub const UNSUPPORTED_TESTS: usize = 13;
/// Argument values for constructs the target cannot express: besides a neutral word, the values for which
/// the construct would be trivially true (or trivially decidable) on a Lustre scan - the ones a well-meant
/// shortcut would special-case.
pub const UNSUPPORTED_ARGS: &[&str] = &[
    "arg", "lustre", "Lustre", "ext4", "nfs", "tmpfs", "root", "0", "nobody", "wheel", "65534", ".*", ".", "*", "", "/", "./", "..", "/dev/null", "/mnt/lustre", "^", "$", ".+", "a|", "[^/]*", "/proc/self", "-", "x",
];

pub fn gen_unsupported_test_with(k: usize, r: &mut Rng) -> Test {
    let s = if r.chance(1, 3) { "arg".to_string() } else { r.pick(UNSUPPORTED_ARGS).to_string() };
    unsupported_test(k, s)
}

pub fn gen_unsupported_test(k: usize) -> Test {
    unsupported_test(k, "arg".to_string())
}

fn unsupported_test(k: usize, s: String) -> Test {
    match k {
        0 => Test::AccessNewer(s),
        1 => Test::ChangeNewer(s),
        2 => Test::FsType(s),
        3 => Test::Group(s),
        4 => Test::InsensitiveLinkName(s),
        5 => Test::InsensitiveRegex(s),
        6 => Test::LinkName(s),
        7 => Test::ModifyNewer(s),
        8 => Test::NoGroup,
        9 => Test::NoUser,
        10 => Test::Regex(s),
        11 => Test::Samefile(s),
        _ => Test::User(s),
    }
}

pub const SUPPORTED_ACTIONS: usize = 8;
pub fn gen_action_kind(k: usize, r: &mut Rng) -> Action {
    match k {
        0 => Action::Print,
        1 => Action::PrintNull,
        2 => Action::PrintFid,
        3 => Action::Quit,
        4 => Action::PrintFormatted(gen_format(r, false)),
        5 => Action::FilePrint(r.pick(FILE_POOL).to_string()),
        6 => Action::FilePrintNull(r.pick(FILE_POOL).to_string()),
        _ => Action::FilePrintFormatted(r.pick(FILE_POOL).to_string(), gen_format(r, false)),
    }
}

/// Degenerate values only a hand-built tree can carry (the parser never returns them): empty type list,
/// empty strings, an empty format, the deprecated implicit-print action node, escape codes beyond a byte.
#[allow(deprecated)]
pub fn gen_odd_leaf(r: &mut Rng) -> Expression {
    match r.below(14) {
        0 => t(Test::Type(vec![])),
        1 => t(Test::Name(String::new())),
        2 => t(Test::InsensitivePath(String::new())),
        3 => t(Test::Pool(String::new())),
        4 => t(Test::Xattr(String::new())),
        5 => t(Test::XattrMatch(String::new(), String::new())),
        6 => act(Action::PrintFormatted(vec![])),
        7 => act(Action::FilePrintFormatted("o".into(), vec![])),
        8 => act(Action::FilePrint(String::new())),
        9 => act(Action::DefaultPrint),
        10 => act(Action::PrintFormatted(vec![FormatElement::Special(FormatSpecial::Ascii(*r.pick(&[0o400u16, 0x1000, 0xD800, 0xDBFF, 0xDC00, 0xDFFF, 0xFFFE, 0xFFFF])))])),
        11 => {
            // a parser-normal format with empty literals dropped in (start, middle, end - also after a
            // final newline escape) and sometimes a doubled element
            let mut f = gen_format(r, true);
            let n = 1 + r.usize(2);
            for _ in 0..n {
                let pos = if r.chance(1, 2) { f.len() } else { r.usize(f.len() + 1) };
                f.insert(pos, FormatElement::Literal(String::new()));
            }
            if r.chance(1, 4) {
                f.push(FormatElement::Special(FormatSpecial::Newline));
            }
            if r.chance(1, 2) {
                act(Action::PrintFormatted(f))
            } else {
                act(Action::FilePrintFormatted("o".into(), f))
            }
        }
        12 => t(Test::Type(vec![FileType::File, FileType::File, FileType::File])),
        _ => act(Action::PrintFormatted(vec![FormatElement::Field(FormatField::AccessFormatted('\0')), FormatElement::Field(FormatField::XAttr(String::new()))])),
    }
}

pub fn gen_leaf(r: &mut Rng, action_bias: u64) -> Expression {
    if r.below(100) < action_bias {
        let k = if r.chance(1, 12) { 3 } else { r.usize(SUPPORTED_ACTIONS) };
        act(gen_action_kind(k, r))
    } else {
        t(gen_test_kind(r.usize(SUPPORTED_TESTS), r))
    }
}

/// Random operator tree with `leaves` leaves.
pub fn gen_tree(r: &mut Rng, leaves: usize, leaf: &mut dyn FnMut(&mut Rng) -> Expression) -> Expression {
    if leaves <= 1 {
        let l = leaf(r);
        return if r.chance(1, 6) { not(l) } else { l };
    }
    let left = 1 + r.usize(leaves - 1);
    let a = gen_tree(r, left, leaf);
    let b = gen_tree(r, leaves - left, leaf);
    let e = match r.below(10) {
        0..=4 => and(a, b),
        5..=7 => or(a, b),
        _ => list(a, b),
    };
    if r.chance(1, 8) {
        not(e)
    } else {
        e
    }
}

/// A leaf *related* to `l`: an equal-valued copy (a fresh node, not a shared Rc), the same test with the
/// other comparison form, the same field with the neighbouring constant, the same pattern with the other
/// case rule, the same bits under another check kind, the same destination with another terminator.
/// Random trees draw their constants independently, so without this two leaves of one expression are
/// almost never equal or adjacent - which is where folding, merging and caching go wrong.
pub fn related_leaf(l: &Expression, r: &mut Rng) -> Expression {
    fn cmp_var<T: Clone>(c: &Comparison<T>, r: &mut Rng, bump: impl Fn(&T, bool) -> T) -> Comparison<T> {
        let (Comparison::Equal(v) | Comparison::GreaterThan(v) | Comparison::LesserThan(v)) = c;
        let v = match r.below(6) {
            0 => bump(v, true),
            1 => bump(v, false),
            2 => bump(&bump(v, true), true),
            3 => bump(&bump(v, false), false),
            _ => v.clone(),
        };
        match r.below(4) {
            0 => Comparison::Equal(v),
            1 => Comparison::GreaterThan(v),
            2 => Comparison::LesserThan(v),
            _ => match c {
                Comparison::Equal(_) => Comparison::Equal(v),
                Comparison::GreaterThan(_) => Comparison::GreaterThan(v),
                Comparison::LesserThan(_) => Comparison::LesserThan(v),
            },
        }
    }
    let b32 = |v: &u32, up: bool| if up { v.saturating_add(1) } else { v.saturating_sub(1) };
    let b64 = |v: &u64, up: bool| if up { v.saturating_add(1) } else { v.saturating_sub(1) };
    let bsize = |v: &Size, up: bool| {
        let (n, unit) = size_parts(v);
        let unit_index = crate::findsem::UNITS_SIZE.iter().position(|(_, u)| *u == unit).unwrap_or(0) as u64;
        let max = u64::MAX / unit;
        mk_size(unit_index, if up { (n + 1).min(max) } else { n.saturating_sub(1) })
    };
    let btime = |v: &TimeSpec, up: bool| {
        let (n, unit) = time_parts(v);
        let ui = match unit {
            1 => 0,
            60 => 1,
            3600 => 2,
            _ => 3,
        };
        mk_time(ui, if up { n.saturating_add(1) } else { n.saturating_sub(1) })
    };
    match l {
        Expression::Test(x) => t(match x {
            Test::UserId(c) => Test::UserId(cmp_var(c, r, b32)),
            Test::GroupId(c) => Test::GroupId(cmp_var(c, r, b32)),
            Test::InodeNumber(c) => Test::InodeNumber(cmp_var(c, r, b32)),
            Test::MirrorCount(c) => Test::MirrorCount(cmp_var(c, r, b32)),
            Test::StripeCount(c) => Test::StripeCount(cmp_var(c, r, b32)),
            Test::Links(c) => Test::Links(cmp_var(c, r, b64)),
            Test::Size(c) => Test::Size(cmp_var(c, r, bsize)),
            Test::AccessTime(c) => match r.below(3) {
                0 => Test::ModifyTime(cmp_var(c, r, btime)),
                _ => Test::AccessTime(cmp_var(c, r, btime)),
            },
            Test::ChangeTime(c) => Test::ChangeTime(cmp_var(c, r, btime)),
            Test::ModifyTime(c) => match r.below(3) {
                0 => Test::ChangeTime(cmp_var(c, r, btime)),
                _ => Test::ModifyTime(cmp_var(c, r, btime)),
            },
            Test::Name(s) => match r.below(3) {
                0 => Test::InsensitiveName(s.clone()),
                1 => Test::Path(s.clone()),
                _ => Test::Name(s.clone()),
            },
            Test::InsensitiveName(s) => match r.below(3) {
                0 => Test::Name(s.clone()),
                1 => Test::InsensitiveName(s.to_uppercase()),
                _ => Test::InsensitiveName(s.clone()),
            },
            Test::Path(s) => match r.below(3) {
                0 => Test::InsensitivePath(s.clone()),
                1 => Test::Name(s.clone()),
                _ => Test::Path(s.clone()),
            },
            Test::InsensitivePath(s) => match r.below(2) {
                0 => Test::Path(s.clone()),
                _ => Test::InsensitivePath(s.clone()),
            },
            Test::Perm(p) => {
                let (PermCheck::Equal(m) | PermCheck::AtLeast(m) | PermCheck::Any(m)) = p;
                let m = Permission(m.0);
                match r.below(4) {
                    0 => Test::Perm(PermCheck::Equal(m)),
                    1 => Test::Perm(PermCheck::AtLeast(m)),
                    2 => Test::Perm(PermCheck::Any(m)),
                    _ => x.clone(),
                }
            }
            Test::Type(v) => {
                let mut v = v.clone();
                if r.chance(1, 2) && !v.is_empty() {
                    let f = v[0].clone();
                    v.push(f);
                }
                Test::Type(v)
            }
            other => other.clone(),
        }),
        Expression::Action(a) => act(match a {
            Action::FilePrint(f) => match r.below(3) {
                0 => Action::FilePrintNull(f.clone()),
                1 => Action::FilePrintFormatted(f.clone(), vec![FormatElement::Field(FormatField::Name)]),
                _ => Action::FilePrint(f.clone()),
            },
            Action::FilePrintNull(f) => match r.below(2) {
                0 => Action::FilePrint(f.clone()),
                _ => Action::FilePrintNull(f.clone()),
            },
            Action::Print => match r.below(3) {
                0 => Action::PrintNull,
                1 => Action::PrintFormatted(vec![FormatElement::Field(FormatField::Name), FormatElement::Special(FormatSpecial::Newline)]),
                _ => Action::Print,
            },
            other => other.clone(),
        }),
        other => other.clone(),
    }
}

/// Two comparisons of the SAME field side by side (the shape window / range peepholes look for), both
/// constants from the boundary set of the field's type, in the same or in another unit: `-size +LO -size -HI`,
/// `-mtime +L -mtime -(L+2)`, `-uid +4294967294 -uid -0` ...; placed under `-a`, `-o` or `,`, sometimes negated,
/// sometimes with an action before or after. `wild` admits constants whose meaning is unspecified (time
/// spans beyond 64 bits): fine for crash and profile monitors, not for semantic comparison.
pub fn pair_case(r: &mut Rng, wild: bool) -> Expression {
    fn cmp_k<T>(k: u64, v: T) -> Comparison<T> {
        match k % 3 {
            0 => Comparison::GreaterThan(v),
            1 => Comparison::LesserThan(v),
            _ => Comparison::Equal(v),
        }
    }
    let b32: [u32; 10] = [0, 1, 2, 3, 4, (1 << 31) - 1, 1 << 31, u32::MAX - 2, u32::MAX - 1, u32::MAX];
    let b64: [u64; 14] = [0, 1, 2, 3, 4, (1 << 31) - 1, 1 << 32, (1 << 63) - 1, 1 << 63, (1 << 63) + 1, u64::MAX - 3, u64::MAX - 2, u64::MAX - 1, u64::MAX];
    let (k1, k2) = (r.below(3), r.below(3));
    // the second constant: an independent boundary value, or first + d (wrapping), d in -2..=3
    let rel = |r: &mut Rng, v: u64, pool: &[u64]| -> u64 {
        if r.chance(1, 2) {
            v.wrapping_add(r.below(6)).wrapping_sub(2)
        } else {
            pool[r.usize(pool.len())]
        }
    };
    let (a, b) = match r.below(9) {
        0..=3 => {
            let f = r.below(5);
            let v1 = b32[r.usize(b32.len())];
            let pool: Vec<u64> = b32.iter().map(|x| *x as u64).collect();
            let v2 = (rel(r, v1 as u64, &pool) & 0xffff_ffff) as u32;
            let mk = |f: u64, c: Comparison<u32>| match f {
                0 => Test::UserId(c),
                1 => Test::GroupId(c),
                2 => Test::InodeNumber(c),
                3 => Test::MirrorCount(c),
                _ => Test::StripeCount(c),
            };
            (t(mk(f, cmp_k(k1, v1))), t(mk(f, cmp_k(k2, v2))))
        }
        4 => {
            let v1 = b64[r.usize(b64.len())];
            let v2 = rel(r, v1, &b64);
            (t(Test::Links(cmp_k(k1, v1))), t(Test::Links(cmp_k(k2, v2))))
        }
        5 | 6 => {
            // sizes: the second constant lies k units of either unit away from the first, in bytes
            let (u1, u2) = (r.below(7), r.below(7));
            let (m1, m2) = (crate::findsem::UNITS_SIZE[u1 as usize].1, crate::findsem::UNITS_SIZE[u2 as usize].1);
            let max1 = u64::MAX / m1;
            let n1 = match r.below(6) {
                0 => max1 - r.below(3),
                1 => r.below(4),
                2 => 1024 * r.below(5),
                _ => r.below(40),
            }
            .min(max1);
            let bytes1 = (n1 as u128) * (m1 as u128);
            let step = if r.chance(1, 2) { m1 } else { m2 } as i128;
            let bytes2 = (bytes1 as i128 + (r.below(7) as i128 - 3) * step).max(0) as u128;
            let n2 = ((bytes2 + if r.chance(1, 2) { m2 as u128 - 1 } else { 0 }) / m2 as u128).min((u64::MAX / m2) as u128) as u64;
            (t(Test::Size(cmp_k(k1, mk_size(u1, n1)))), t(Test::Size(cmp_k(k2, mk_size(u2, n2)))))
        }
        _ => {
            let f = r.below(3);
            let (u1, u2) = (r.below(4), if r.chance(2, 3) { 9 } else { r.below(4) });
            let u2 = if u2 == 9 { u1 } else { u2 };
            let small: [u64; 9] = [0, 1, 2, 3, 23, 24, 59, 60, 61];
            let pool: Vec<u64> = if wild { small.iter().cloned().chain([u64::MAX - 2, u64::MAX - 1, u64::MAX, 1 << 63]).collect() } else { small.to_vec() };
            let n1 = pool[r.usize(pool.len())];
            let n2 = rel(r, n1, &pool);
            let n2 = if wild { n2 } else { n2 % 100_000 };
            let mk = |f: u64, c: Comparison<TimeSpec>| match f {
                0 => Test::AccessTime(c),
                1 => Test::ChangeTime(c),
                _ => Test::ModifyTime(c),
            };
            (t(mk(f, cmp_k(k1, mk_time(u1, n1)))), t(mk(f, cmp_k(k2, mk_time(u2, n2)))))
        }
    };
    let (a, b) = (if r.chance(1, 8) { not(a) } else { a }, if r.chance(1, 8) { not(b) } else { b });
    let core = match r.below(6) {
        0 | 1 | 2 => and(a, b),
        3 => or(a, b),
        4 => list(a, b),
        _ => and(and(t(Test::True), a), b),
    };
    match r.below(5) {
        0 => and(core, act(Action::Print)),
        1 => and(act(Action::FilePrint("o".into())), core),
        2 => or(core, t(Test::Name("x".into()))),
        _ => core,
    }
}

/// Constructor route only: the same tree with explicit grouping nodes (`Operator::Precedence`, which the
/// parser never produces but the public constructors allow) wrapped around random sub-trees.
pub fn with_groups(e: &Expression, r: &mut Rng, one_in: u64) -> Expression {
    let inner = match e {
        Expression::Operator(op) => match op.as_ref() {
            Operator::Not(x) => not(with_groups(x, r, one_in)),
            Operator::And(a, b) => and(with_groups(a, r, one_in), with_groups(b, r, one_in)),
            Operator::Or(a, b) => or(with_groups(a, r, one_in), with_groups(b, r, one_in)),
            Operator::List(a, b) => list(with_groups(a, r, one_in), with_groups(b, r, one_in)),
            Operator::Precedence(x) => prec(with_groups(x, r, one_in)),
        },
        other => other.clone(),
    };
    if r.chance(1, one_in) {
        prec(inner)
    } else {
        inner
    }
}

/// Spellings a textual templating scheme could use for a hole named after the device, the policy body or
/// another part of the skeleton: a program assembled by string replacement rewrites user text that
/// happens to spell one of its own placeholders. syntaxes x names, generated (not a hand-picked list).
pub fn placeholder_family() -> Vec<String> {
    let names = [
        "mdt", "MDT", "Mdt", "device", "DEVICE", "dev", "DEV", "path", "PATH", "mdt_path", "MDT_PATH", "devpath", "target", "0", "1", "policy", "POLICY", "body", "BODY", "policy_body", "options", "threads", "THREADS",
        "definitions", "init", "initialization", "modules", "terminate", "now", "NOW",
    ];
    let mut v = vec![];
    for n in names {
        for (a, b) in [
            ("{", "}"), ("{{", "}}"), ("${", "}"), ("$", ""), ("%(", ")s"), ("@", "@"), ("@@", "@@"), ("%", "%"), ("<", ">"), ("[", "]"), ("__", "__"), ("#{", "}"), ("<%", "%>"), ("{%", "%}"), ("$(", ")"), (":", ""), ("%{", "}"), ("~", "~"),
            ("&", ";"), ("!", "!"), ("%lf3:", ""), ("@", ""), ("{:", "}"), ("#", "#"),
        ] {
            v.push(format!("{}{}{}", a, n, b));
        }
    }
    v.extend(program_spellings());
    v
}

// ---------------------------------------------------------------------------------------------
// Text renderer (spec side)

#[derive(Clone, Debug)]
pub struct Style {
    pub and_word: u8, // 0 implicit, 1 -a, 2 -and, 3 random per operator
    pub or_word: u8,  // 0 -o, 1 -or
    pub sep: String,
    pub quote: u8, // 0 bare when possible, 1 single, 2 double
    pub time_default_unit: bool,
}

impl Default for Style {
    fn default() -> Self {
        Style { and_word: 0, or_word: 0, sep: " ".into(), quote: 0, time_default_unit: true }
    }
}

pub fn word(s: &str, quote: u8) -> Option<String> {
    if s.is_empty() {
        return None;
    }
    // blanks are exactly space, tab, CR, LF; any other white space (NBSP, U+3000, VT, FF ...) is a word character
    let bare_ok = !s.chars().any(|c| matches!(c, ' ' | '\t' | '\r' | '\n') || c == ')' || c == '\'' || c == '"') && !s.starts_with('(');
    let sq_ok = !s.contains('\'');
    let dq_ok = !s.contains('"');
    match quote {
        0 if bare_ok => Some(s.to_string()),
        1 if sq_ok => Some(format!("'{}'", s)),
        2 if dq_ok => Some(format!("\"{}\"", s)),
        _ => {
            if bare_ok {
                Some(s.to_string())
            } else if sq_ok {
                Some(format!("'{}'", s))
            } else if dq_ok {
                Some(format!("\"{}\"", s))
            } else {
                None
            }
        }
    }
}

fn cmp_text<T>(c: &Comparison<T>, f: impl Fn(&T) -> String) -> String {
    match c {
        Comparison::Equal(v) => f(v),
        Comparison::GreaterThan(v) => format!("+{}", f(v)),
        Comparison::LesserThan(v) => format!("-{}", f(v)),
    }
}

pub fn size_text(s: &Size) -> String {
    let (n, u) = size_parts(s);
    let c = match u {
        1 => "c",
        2 => "w",
        512 => "b",
        1024 => "k",
        0x100000 => "M",
        0x40000000 => "G",
        _ => "T",
    };
    format!("{}{}", n, c)
}

fn time_text(kw_day: bool, ts: &TimeSpec, allow_default: bool) -> String {
    let (n, u) = time_parts(ts);
    let c = match u {
        1 => "s",
        60 => "m",
        3600 => "h",
        _ => "d",
    };
    if allow_default && ((kw_day && u == 86400) || (!kw_day && u == 60)) {
        format!("{}", n)
    } else {
        format!("{}{}", n, c)
    }
}

pub fn type_letter(t: &FileType) -> char {
    let b = type_bits(t);
    TYPES.iter().find(|(_, x)| *x == b).unwrap().0
}

pub fn field_text(f: &FormatField) -> String {
    match f {
        FormatField::Percent => "%%".into(),
        FormatField::Access => "%a".into(),
        FormatField::AccessFormatted(k) => format!("%A{}", k),
        FormatField::DiskSizeBlocks => "%b".into(),
        FormatField::Change => "%c".into(),
        FormatField::ChangeFormatted(k) => format!("%C{}", k),
        FormatField::Depth => "%d".into(),
        FormatField::DeviceNumber => "%D".into(),
        FormatField::Basename => "%f".into(),
        FormatField::FsType => "%F".into(),
        FormatField::Group => "%g".into(),
        FormatField::GroupId => "%G".into(),
        FormatField::Parents => "%h".into(),
        FormatField::StartingPoint => "%H".into(),
        FormatField::InodeDecimal => "%i".into(),
        FormatField::DiskSizeKilos => "%k".into(),
        FormatField::SymbolicTarget => "%l".into(),
        FormatField::PermissionsOctal => "%m".into(),
        FormatField::PermissionsSymbolic => "%M".into(),
        FormatField::Hardlinks => "%n".into(),
        FormatField::Name => "%p".into(),
        FormatField::NameWithoutStartingPoint => "%P".into(),
        FormatField::DiskSizeBytes => "%s".into(),
        FormatField::Sparseness => "%S".into(),
        FormatField::Modify => "%t".into(),
        FormatField::ModifyFormatted(k) => format!("%T{}", k),
        FormatField::User => "%u".into(),
        FormatField::UserId => "%U".into(),
        FormatField::Type => "%y".into(),
        FormatField::TypeSymlink => "%Y".into(),
        FormatField::SecurityContext => "%Z".into(),
        FormatField::FileId => "%{fid}".into(),
        FormatField::ProjectId => "%{projid}".into(),
        FormatField::MirrorCount => "%{mirror-count}".into(),
        FormatField::StripeCount => "%{stripe-count}".into(),
        FormatField::StripeSize => "%{stripe-size}".into(),
        FormatField::XAttr(n) => format!("%{{xattr:{}}}", n),
    }
}

pub fn special_text(s: &FormatSpecial) -> String {
    match s {
        FormatSpecial::Alarm => "\\a".into(),
        FormatSpecial::Backspace => "\\b".into(),
        FormatSpecial::Clear => "\\c".into(),
        FormatSpecial::Form => "\\f".into(),
        FormatSpecial::Newline => "\\n".into(),
        FormatSpecial::CarriageReturn => "\\r".into(),
        FormatSpecial::TabHorizontal => "\\t".into(),
        FormatSpecial::TabVertical => "\\v".into(),
        FormatSpecial::Null => "\\0".into(),
        FormatSpecial::Backslash => "\\\\".into(),
        FormatSpecial::Ascii(v) => format!("\\{:03o}", v),
    }
}

/// Format list back to a format string; None when the list is not the segmentation of any string.
pub fn format_text(fmt: &[FormatElement]) -> Option<String> {
    let mut out = String::new();
    let mut prev_lit = false;
    let mut prev_digit_sensitive = false; // after \0 or \NNN a following digit would be swallowed
    for el in fmt {
        match el {
            FormatElement::Literal(s) => {
                if s.is_empty() || prev_lit || s.contains('%') || s.contains('\\') {
                    return None;
                }
                if prev_digit_sensitive && s.starts_with(|c: char| c.is_ascii_digit()) {
                    return None;
                }
                out.push_str(s);
                prev_lit = true;
                prev_digit_sensitive = false;
            }
            FormatElement::Field(f) => {
                out.push_str(&field_text(f));
                prev_lit = false;
                prev_digit_sensitive = false;
            }
            FormatElement::Special(s) => {
                if matches!(s, FormatSpecial::Ascii(v) if *v > 0o777) {
                    return None; // no text spells it: three octal digits at most
                }
                out.push_str(&special_text(s));
                prev_lit = false;
                prev_digit_sensitive = matches!(s, FormatSpecial::Null | FormatSpecial::Ascii(_));
            }
        }
    }
    if out.is_empty() {
        return None;
    }
    Some(out)
}

pub fn perm_text(p: &PermCheck) -> String {
    match p {
        PermCheck::Equal(m) => format!("{:04o}", m.0.bits()),
        PermCheck::AtLeast(m) => format!("-{:04o}", m.0.bits()),
        PermCheck::Any(m) => format!("/{:04o}", m.0.bits()),
    }
}

pub fn test_text(x: &Test, st: &Style) -> Option<String> {
    let w = |s: &str| word(s, st.quote);
    let sep = &st.sep;
    Some(match x {
        Test::AccessTime(c) => {
            let day = !matches!(inner(c), TimeSpec::Minute(_));
            format!("{}{}{}", if day { "-atime" } else { "-amin" }, sep, cmp_text(c, |v| time_text(day, v, st.time_default_unit)))
        }
        Test::ChangeTime(c) => {
            let day = !matches!(inner(c), TimeSpec::Minute(_));
            format!("{}{}{}", if day { "-ctime" } else { "-cmin" }, sep, cmp_text(c, |v| time_text(day, v, st.time_default_unit)))
        }
        Test::ModifyTime(c) => {
            let day = !matches!(inner(c), TimeSpec::Minute(_));
            format!("{}{}{}", if day { "-mtime" } else { "-mmin" }, sep, cmp_text(c, |v| time_text(day, v, st.time_default_unit)))
        }
        Test::Empty => "-empty".into(),
        Test::Executable => "-executable".into(),
        Test::False => "-false".into(),
        Test::True => "-true".into(),
        Test::Readable => "-readable".into(),
        Test::Writable => "-writable".into(),
        Test::GroupId(c) => format!("-gid{}{}", sep, cmp_text(c, |v| v.to_string())),
        Test::UserId(c) => format!("-uid{}{}", sep, cmp_text(c, |v| v.to_string())),
        Test::InodeNumber(c) => format!("-inum{}{}", sep, cmp_text(c, |v| v.to_string())),
        Test::Links(c) => format!("-links{}{}", sep, cmp_text(c, |v| v.to_string())),
        Test::MirrorCount(c) => format!("-mirror-count{}{}", sep, cmp_text(c, |v| v.to_string())),
        Test::StripeCount(c) => format!("-stripe-count{}{}", sep, cmp_text(c, |v| v.to_string())),
        Test::Size(c) => format!("-size{}{}", sep, cmp_text(c, size_text)),
        Test::Type(l) => {
            if l.is_empty() {
                return None;
            }
            format!("-type{}{}", sep, l.iter().map(|t| type_letter(t).to_string()).collect::<Vec<_>>().join(","))
        }
        Test::Perm(p) => format!("-perm{}{}", sep, perm_text(p)),
        Test::Name(s) => format!("-name{}{}", sep, w(s)?),
        Test::InsensitiveName(s) => format!("-iname{}{}", sep, w(s)?),
        Test::Path(s) => format!("-path{}{}", sep, w(s)?),
        Test::InsensitivePath(s) => format!("-ipath{}{}", sep, w(s)?),
        Test::Pool(s) => format!("-pool{}{}", sep, w(s)?),
        Test::Xattr(s) => format!("-xattr{}{}", sep, w(s)?),
        Test::XattrMatch(a, b) => format!("-xattr-match{}{}{}{}", sep, w(a)?, sep, w(b)?),
        Test::AccessNewer(s) => format!("-anewer{}{}", sep, w(s)?),
        Test::ChangeNewer(s) => format!("-cnewer{}{}", sep, w(s)?),
        Test::ModifyNewer(s) => format!("-mnewer{}{}", sep, w(s)?),
        Test::FsType(s) => format!("-fstype{}{}", sep, w(s)?),
        Test::Group(s) => format!("-group{}{}", sep, w(s)?),
        Test::User(s) => format!("-user{}{}", sep, w(s)?),
        Test::InsensitiveLinkName(s) => format!("-ilname{}{}", sep, w(s)?),
        Test::InsensitiveRegex(s) => format!("-iregex{}{}", sep, w(s)?),
        Test::Regex(s) => format!("-regex{}{}", sep, w(s)?),
        Test::Samefile(s) => format!("-samefile{}{}", sep, w(s)?),
        Test::NoGroup => "-nogroup".into(),
        Test::NoUser => "-nouser".into(),
        Test::LinkName(_) => return None, // no keyword in this vocabulary
    })
}

fn inner<T>(c: &Comparison<T>) -> &T {
    match c {
        Comparison::Equal(v) | Comparison::GreaterThan(v) | Comparison::LesserThan(v) => v,
    }
}

/// Format strings are rendered quoted unless the style asks for bare and the text allows it.
fn fmt_word(fmt: &[FormatElement], st: &Style) -> Option<String> {
    let s = format_text(fmt)?;
    word(&s, if st.quote == 0 { 1 } else { st.quote })
}

#[allow(deprecated)]
pub fn action_text(a: &Action, st: &Style) -> Option<String> {
    let w = |s: &str| word(s, st.quote);
    let sep = &st.sep;
    Some(match a {
        Action::Print => "-print".into(),
        Action::PrintNull => "-print0".into(),
        Action::PrintFid => "-print-file-fid".into(),
        Action::Quit => "-quit".into(),
        Action::Prune => "-prune".into(),
        Action::List => "-ls".into(),
        Action::FileList(f) => format!("-fls{}{}", sep, w(f)?),
        Action::FilePrint(f) => format!("-fprint{}{}", sep, w(f)?),
        Action::FilePrintNull(f) => format!("-fprint0{}{}", sep, w(f)?),
        Action::PrintFormatted(fmt) => format!("-printf{}{}", sep, fmt_word(fmt, st)?),
        Action::FilePrintFormatted(f, fmt) => format!("-fprintf{}{}{}{}", sep, w(f)?, sep, fmt_word(fmt, st)?),
        Action::DefaultPrint => return None,
    })
}

fn level(e: &Expression) -> u8 {
    match e {
        Expression::Operator(op) => match op.as_ref() {
            Operator::List(_, _) => 0,
            Operator::Or(_, _) => 1,
            Operator::And(_, _) => 2,
            Operator::Not(_) => 3,
            Operator::Precedence(_) => 4,
        },
        _ => 4,
    }
}

/// Chunks: each is "(", ")", "!", ",", an operator word, or one whole primary with its arguments.
pub fn render_chunks(e: &Expression, st: &Style, r: &mut Rng, out: &mut Vec<String>) -> Option<()> {
    fn sub(x: &Expression, need: u8, st: &Style, r: &mut Rng, out: &mut Vec<String>) -> Option<()> {
        if level(x) < need {
            out.push("(".into());
            render_chunks(x, st, r, out)?;
            out.push(")".into());
            Some(())
        } else {
            render_chunks(x, st, r, out)
        }
    }
    match e {
        Expression::Test(x) => out.push(test_text(x, st)?),
        Expression::Action(a) => out.push(action_text(a, st)?),
        Expression::Global(_) | Expression::Positional(_) => return None,
        Expression::Operator(op) => match op.as_ref() {
            Operator::Precedence(x) => {
                out.push("(".into());
                render_chunks(x, st, r, out)?;
                out.push(")".into());
            }
            Operator::Not(x) => {
                out.push("!".into());
                sub(x, 3, st, r, out)?;
            }
            Operator::And(a, b) => {
                let wsel = if st.and_word == 3 { r.below(3) as u8 } else { st.and_word };
                sub(a, 2, st, r, out)?;
                match wsel {
                    0 => {}
                    1 => out.push("-a".into()),
                    _ => out.push("-and".into()),
                }
                sub(b, 3, st, r, out)?;
            }
            Operator::Or(a, b) => {
                let wsel = if st.or_word == 3 { r.below(2) as u8 } else { st.or_word };
                sub(a, 1, st, r, out)?;
                out.push(if wsel == 0 { "-o" } else { "-or" }.into());
                sub(b, 2, st, r, out)?;
            }
            Operator::List(a, b) => {
                sub(a, 0, st, r, out)?;
                out.push(",".into());
                sub(b, 1, st, r, out)?;
            }
        },
    }
    Some(())
}

pub fn render(e: &Expression, st: &Style, r: &mut Rng) -> Option<String> {
    let mut out = vec![];
    render_chunks(e, st, r, &mut out)?;
    Some(out.join(&st.sep))
}

pub fn render_default(e: &Expression) -> Option<String> {
    render(e, &Style::default(), &mut Rng::new(0))
}

// ---------------------------------------------------------------------------------------------
// Records directed at the constants of a tree

fn clamp_u(v: i128) -> Option<u64> {
    if v < 0 || v > u64::MAX as i128 {
        None
    } else {
        Some(v as u64)
    }
}

pub fn directed_records(e: &Expression, now: i128, r: &mut Rng, extra_random: usize) -> Vec<FileRecord> {
    let mut out: Vec<FileRecord> = vec![];
    let mut idx = 0u64;
    let mut fresh = |out: &mut Vec<FileRecord>, f: &mut dyn FnMut(&mut FileRecord)| {
        let mut rec = FileRecord::base(idx);
        idx += 1;
        // ages well-defined: timestamps in the past
        rec.atime = now - 1000 - idx as i128 * 7;
        rec.ctime = now - 2000 - idx as i128 * 11;
        rec.mtime = now - 3000 - idx as i128 * 13;
        f(&mut rec);
        out.push(rec);
    };
    let mut ts = vec![];
    crate::findsem::tests(e, &mut ts);
    for x in ts {
        match x {
            Test::AccessTime(c) | Test::ChangeTime(c) | Test::ModifyTime(c) => {
                let (n, u) = time_parts(inner(c));
                let (n, u) = (n as i128, u as i128);
                for age in [n * u - 1, n * u, n * u + u - 1, n * u + u, n * u + 1] {
                    if age < 0 {
                        continue;
                    }
                    let which = match x {
                        Test::AccessTime(_) => 0,
                        Test::ChangeTime(_) => 1,
                        _ => 2,
                    };
                    fresh(&mut out, &mut |rec| match which {
                        0 => rec.atime = now - age,
                        1 => rec.ctime = now - age,
                        _ => rec.mtime = now - age,
                    });
                }
            }
            Test::GroupId(c) | Test::UserId(c) | Test::InodeNumber(c) | Test::MirrorCount(c) | Test::StripeCount(c) => {
                let n = *inner(c) as i128;
                for v in [n - 1, n, n + 1] {
                    if let Some(v) = clamp_u(v) {
                        let which = match x {
                            Test::GroupId(_) => 0,
                            Test::UserId(_) => 1,
                            Test::InodeNumber(_) => 2,
                            Test::MirrorCount(_) => 3,
                            _ => 4,
                        };
                        fresh(&mut out, &mut |rec| match which {
                            0 => rec.gid = v,
                            1 => rec.uid = v,
                            2 => rec.ino = v,
                            3 => rec.mirror_count = v,
                            _ => rec.stripe_count = v,
                        });
                    }
                }
            }
            Test::Links(c) => {
                let n = *inner(c) as i128;
                for v in [n - 1, n, n + 1] {
                    if let Some(v) = clamp_u(v) {
                        fresh(&mut out, &mut |rec| rec.nlink = v);
                    }
                }
            }
            Test::Size(c) => {
                let (n, u) = size_parts(inner(c));
                let (n, u) = (n as i128, u as i128);
                for v in [n * u - u, n * u - u + 1, n * u - 1, n * u, n * u + 1, n * u + u] {
                    if let Some(v) = clamp_u(v) {
                        fresh(&mut out, &mut |rec| rec.size = v);
                    }
                }
            }
            Test::Type(l) => {
                let _ = l;
                for (_, bits) in TYPES.iter() {
                    fresh(&mut out, &mut |rec| rec.mode = bits | 0o644);
                }
            }
            Test::Perm(p) => {
                let (PermCheck::Equal(m) | PermCheck::AtLeast(m) | PermCheck::Any(m)) = p;
                let pb = m.0.bits();
                let mut modes = vec![pb, 0, 0o7777];
                for b in 0..12 {
                    modes.push(pb ^ (1 << b));
                }
                for (i, md) in modes.into_iter().enumerate() {
                    let ty = if i % 2 == 0 { 0o100000 } else { 0o040000 };
                    fresh(&mut out, &mut |rec| rec.mode = ty | md);
                }
            }
            Test::Name(s) | Test::InsensitiveName(s) => {
                for nm in name_variants(s) {
                    fresh(&mut out, &mut |rec| rec.relpath = format!("dir0/{}", nm));
                }
            }
            Test::Path(s) | Test::InsensitivePath(s) => {
                for nm in name_variants(s) {
                    fresh(&mut out, &mut |rec| rec.relpath = nm.clone());
                    fresh(&mut out, &mut |rec| rec.relpath = format!("dir1/{}", nm));
                }
            }
            Test::Pool(s) => {
                fresh(&mut out, &mut |rec| rec.pools = vec![s.clone()]);
                fresh(&mut out, &mut |rec| rec.pools = vec!["other".into(), s.clone()]);
                fresh(&mut out, &mut |rec| rec.pools = vec![format!("{}x", s)]);
                fresh(&mut out, &mut |rec| rec.pools = vec![]);
            }
            Test::Xattr(s) => {
                fresh(&mut out, &mut |rec| rec.xattrs = vec![(s.clone(), "v".into())]);
                fresh(&mut out, &mut |rec| rec.xattrs = vec![(format!("{}x", s), "v".into())]);
                fresh(&mut out, &mut |rec| rec.xattrs = vec![]);
            }
            Test::XattrMatch(n, v) => {
                for kn in name_variants(n) {
                    for kv in name_variants(v) {
                        fresh(&mut out, &mut |rec| rec.xattrs = vec![(kn.clone(), kv.clone())]);
                    }
                }
                fresh(&mut out, &mut |rec| rec.xattrs = vec![]);
            }
            Test::Empty | Test::Executable | Test::Readable | Test::Writable => {
                for b in [false, true] {
                    let which = match x {
                        Test::Empty => 0,
                        Test::Executable => 1,
                        Test::Readable => 2,
                        _ => 3,
                    };
                    fresh(&mut out, &mut |rec| {
                        rec.empty = !b;
                        rec.executable = !b;
                        rec.readable = !b;
                        rec.writable = !b;
                        match which {
                            0 => rec.empty = b,
                            1 => rec.executable = b,
                            2 => rec.readable = b,
                            _ => rec.writable = b,
                        }
                    });
                }
            }
            _ => {}
        }
    }
    // coincidence records: attribute combinations independent values never produce - every numeric field
    // equal to one constant of the expression (uid = gid = ino = nlink = size = blocks = counts), all three
    // timestamps equal, a name that is literally the text of its own pattern, an xattr whose value is its
    // name, a very long path (outputs that cross buffer sizes)
    if extra_random > 0 {
        let mut consts: Vec<u64> = vec![];
        let mut ts2 = vec![];
        crate::findsem::tests(e, &mut ts2);
        let mut pats: Vec<String> = vec![];
        let mut xn: Vec<String> = vec![];
        for x in &ts2 {
            match x {
                Test::GroupId(c) | Test::UserId(c) | Test::InodeNumber(c) | Test::MirrorCount(c) | Test::StripeCount(c) => consts.push(*inner(c) as u64),
                Test::Links(c) => consts.push(*inner(c)),
                Test::Size(c) => {
                    let (n, u) = size_parts(inner(c));
                    consts.push(n);
                    consts.push(n.saturating_mul(u));
                }
                Test::Name(p) | Test::InsensitiveName(p) | Test::Path(p) | Test::InsensitivePath(p) => pats.push(p.clone()),
                Test::Xattr(n) | Test::XattrMatch(n, _) => xn.push(n.clone()),
                _ => {}
            }
        }
        consts.sort();
        consts.dedup();
        for c in consts.into_iter().take(3) {
            let c32 = c.min(u32::MAX as u64);
            fresh(&mut out, &mut |rec| {
                rec.uid = c32;
                rec.gid = c32;
                rec.ino = c32;
                rec.nlink = c;
                rec.size = c;
                rec.blocks = c;
                rec.mirror_count = c32;
                rec.stripe_count = c32;
                rec.projid = c32;
                rec.mtime = rec.atime;
                rec.ctime = rec.atime;
            });
        }
        for p in pats.into_iter().take(2) {
            if !p.is_empty() && !p.contains('\0') {
                fresh(&mut out, &mut |rec| rec.relpath = p.clone());
            }
        }
        for n in xn.into_iter().take(2) {
            fresh(&mut out, &mut |rec| rec.xattrs = vec![(n.clone(), n.clone())]);
        }
        if r.chance(1, 6) {
            let long = format!("deep/{}/leaf", "d".repeat(1 + r.usize(5000)));
            fresh(&mut out, &mut |rec| rec.relpath = long.clone());
        }
    }
    // formats that read xattrs / pools: give some records those
    for i in 0..extra_random {
        let mut rec = FileRecord::random(r, 500 + i as u64);
        rec.atime = now - (r.below(100000) as i128);
        rec.ctime = now - (r.below(10000000) as i128);
        rec.mtime = now - (r.below(1000) as i128);
        if r.chance(1, 2) {
            rec.xattrs = vec![("user".into(), "v1".into())];
        }
        if r.chance(1, 3) {
            rec.xattrs.push(("lov".into(), "val".into()));
        }
        if r.chance(1, 2) {
            rec.pools = vec![r.pick(&["fast", "slow", "p1"]).to_string()];
        }
        rec.relpath = match r.below(4) {
            0 => r.pick(NAME_POOL).replace('*', "s").replace('?', "q").replace('[', "b").replace(']', "e"),
            1 => format!("dir{}/{}", r.below(3), r.pick(&["a", "b", "file1.txt", "FILE1.TXT", "data", "Data", "x.y", "sub"])),
            _ => rec.relpath,
        };
        out.push(rec);
    }
    if out.is_empty() {
        out.push(FileRecord::base(0));
    }
    out
}

/// A matching name, a case-only variant, a near miss.
pub fn name_variants(pat: &str) -> Vec<String> {
    // instantiate glob characters to get a matching string
    let mut m = String::new();
    let cs: Vec<char> = pat.chars().collect();
    let mut i = 0;
    while i < cs.len() {
        match cs[i] {
            '*' => m.push_str("zz"),
            '?' => m.push('q'),
            '[' => {
                // take first char of the class
                if let Some(end) = cs[i + 1..].iter().position(|c| *c == ']') {
                    if end > 0 && cs[i + 1] != '!' && cs[i + 1] != '^' {
                        m.push(cs[i + 1]);
                        i += end + 1;
                    } else {
                        m.push('[');
                    }
                } else {
                    m.push('[');
                }
            }
            c => m.push(c),
        }
        i += 1;
    }
    // case-only variant, also for letters outside ASCII when the other case is a single character
    let one = |mut it: std::char::ToUppercase| -> Option<char> {
        let a = it.next()?;
        if it.next().is_some() {
            None
        } else {
            Some(a)
        }
    };
    let swapped: String = m
        .chars()
        .map(|c| {
            if c.is_ascii() {
                if c.is_ascii_lowercase() {
                    c.to_ascii_uppercase()
                } else {
                    c.to_ascii_lowercase()
                }
            } else if c.is_lowercase() {
                one(c.to_uppercase()).filter(|u| u.to_lowercase().eq(std::iter::once(c))).unwrap_or(c)
            } else {
                let mut l = c.to_lowercase();
                match (l.next(), l.next()) {
                    (Some(a), None) if a.to_uppercase().eq(std::iter::once(c)) => a,
                    _ => c,
                }
            }
        })
        .collect();
    let mut near = m.clone();
    near.push('~');
    let mut v = vec![m.clone(), swapped, near];
    if m.chars().count() > 1 {
        let mut cs: Vec<char> = m.chars().collect();
        cs.pop();
        v.push(cs.into_iter().collect());
    }
    v.push(pat.to_string());
    v.dedup();
    v
}
