//! Glue: run an emitted program in the model runtime and decode what it wrote.

use crate::eval::{merge_outs, Dest, EvalError, Interp, Outcome, ScanCall};
use crate::rec::FileRecord;
use crate::sexp::{read_all, ReadError, Sx};
use lipe_find_parser::Target;
use std::collections::HashMap;

#[derive(Clone, Debug)]
pub enum PolicyError {
    Read(ReadError),
    Shape(String),
    Eval(EvalError),
    Decode(String),
}

impl std::fmt::Display for PolicyError {
    fn fmt(&self, f: &mut std::fmt::Formatter) -> std::fmt::Result {
        match self {
            PolicyError::Read(e) => write!(f, "read error at char {}: {}", e.pos, e.msg),
            PolicyError::Shape(s) => write!(f, "program shape: {}", s),
            PolicyError::Eval(e) => write!(f, "run-time error: {}", e),
            PolicyError::Decode(s) => write!(f, "output decode: {}", s),
        }
    }
}

impl PolicyError {
    /// The model runtime (not the program) is the limit: the run is undecided, not violated.
    pub fn is_model_limit(&self) -> bool {
        match self {
            PolicyError::Eval(EvalError::Unmodelled(_)) => true,
            PolicyError::Eval(EvalError::Other(s)) => s.contains("MODEL-OVERFLOW") || s.contains("model step budget") || s.contains("not supported by the model"),
            PolicyError::Read(r) => r.msg.contains("not supported by the model") || r.msg.contains("too large for the model") || r.msg.contains("unsupported # syntax"),
            _ => false,
        }
    }
}

pub struct PolicyRun {
    pub outcomes: Vec<Outcome>,
    pub scan: ScanCall,
    pub interp: Interp,
    pub forms: Vec<Sx>,
    pub frames: usize,
    pub max_tag: u32,
}

/// The two expected top-level forms.
pub fn check_shape(forms: &[Sx]) -> Result<(), String> {
    if forms.len() != 2 {
        return Err(format!("expected 2 top-level forms, found {}", forms.len()));
    }
    if forms[0].head() != Some("use-modules") {
        return Err("first form is not (use-modules ...)".into());
    }
    if !matches!(forms[1].head(), Some("let*" | "let" | "letrec" | "letrec*")) {
        return Err("second form is not a (let* ...) binding form".into());
    }
    Ok(())
}

pub fn read_program(text: &str) -> Result<Vec<Sx>, PolicyError> {
    let forms = read_all(text).map_err(PolicyError::Read)?;
    check_shape(&forms).map_err(PolicyError::Shape)?;
    Ok(forms)
}

pub fn target_dest(t: &Target) -> (Dest, Option<char>) {
    match t {
        Target::Stdout(term) => (Dest::Stdout, *term),
        Target::File(name, term) => (Dest::File(name.clone()), *term),
    }
}

/// Decode a framed stream: (payload, 0x1e, tag)*, nothing left over.
pub fn decode_frames(stream: &str) -> Result<Vec<(String, u32)>, String> {
    let cs: Vec<char> = stream.chars().collect();
    let mut out = vec![];
    let mut start = 0;
    let mut i = 0;
    while i < cs.len() {
        if cs[i] == '\x1e' {
            if i + 1 >= cs.len() {
                return Err("separator without tag at end of stream".into());
            }
            out.push((cs[start..i].iter().collect(), cs[i + 1] as u32));
            i += 2;
            start = i;
        } else {
            i += 1;
        }
    }
    if start != cs.len() {
        return Err(format!("{} characters outside any frame: {:?}", cs.len() - start, cs[start..].iter().take(40).collect::<String>()));
    }
    Ok(out)
}

pub fn run_policy(text: &str, io_map: Option<&HashMap<u32, Target>>, records: Vec<FileRecord>) -> Result<PolicyRun, PolicyError> {
    let forms = read_program(text)?;
    let mut interp = Interp::new(records);
    interp.run_program(&forms).map_err(PolicyError::Eval)?;
    let scan = match interp.w.scan.clone() {
        Some(s) => s,
        None => return Err(PolicyError::Shape("program never called lipe-scan".into())),
    };
    let mut outcomes = vec![];
    let mut frames = 0;
    let mut max_tag = 0;
    for run in &interp.w.runs {
        let outs: Vec<(Dest, String)> = match io_map {
            None => run.writes.iter().map(|(p, s)| (interp.w.ports[*p].dest.clone(), s.clone())).collect(),
            Some(map) => {
                let mut stream = String::new();
                for (p, s) in &run.writes {
                    if *p != 0 {
                        return Err(PolicyError::Decode(format!("framed mode wrote to port {} ({:?}) instead of the shared port", p, interp.w.ports[*p].dest)));
                    }
                    stream.push_str(s);
                }
                let fr = decode_frames(&stream).map_err(PolicyError::Decode)?;
                let mut v = vec![];
                for (payload, tag) in fr {
                    frames += 1;
                    max_tag = max_tag.max(tag);
                    let t = map.get(&tag).ok_or_else(|| PolicyError::Decode(format!("frame tag {} is not a key of io_map()", tag)))?;
                    let (d, term) = target_dest(t);
                    let mut s = payload;
                    if let Some(c) = term {
                        s.push(c);
                    }
                    v.push((d, s));
                }
                v
            }
        };
        outcomes.push(Outcome { truth: run.truth, outs: merge_outs(outs), stop: run.stop });
    }
    Ok(PolicyRun { outcomes, scan, interp, forms, frames, max_tag })
}

#[cfg(test)]
mod tests {
    use super::*;

    /// The repository's own snapshots (taken from lipe_find3 output) must read and run in the model.
    #[test]
    fn snapshots_run_in_the_model() {
        let dir = "/repo/src/snapshots";
        let mut n = 0;
        for e in std::fs::read_dir(dir).unwrap() {
            let p = e.unwrap().path();
            let text = std::fs::read_to_string(&p).unwrap();
            let body = text.splitn(3, "---").nth(2).unwrap();
            let forms = read_program(body).unwrap_or_else(|e| panic!("{:?}: {}", p, e));
            let mut it = Interp::new(vec![FileRecord::base(0), FileRecord::base(1)]);
            it.run_program(&forms).unwrap_or_else(|e| panic!("{:?}: {}", p, e));
            assert_eq!(it.w.runs.len(), 2, "{:?}", p);
            assert_eq!(it.w.scan.as_ref().unwrap().device, "/");
            n += 1;
        }
        assert!(n >= 15);
    }

    #[test]
    fn frames_decode() {
        assert_eq!(decode_frames("ab\u{1e}\u{2}c\u{1e}\u{3}").unwrap(), vec![("ab".to_string(), 2), ("c".to_string(), 3)]);
        assert!(decode_frames("ab\u{1e}\u{2}c").is_err());
        assert!(decode_frames("ab\u{1e}").is_err());
    }
}
