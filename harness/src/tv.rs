//! Translation-validation core shared by C02/C07/C08/C09/C10/C11: compile a tree, run the emitted
//! text in the model runtime on a record set, and compare with the reference evaluator.

use crate::eval::Outcome;
use crate::findsem::{reference, reference_mode, RefMode, Undefined};
use crate::json::J;
use crate::policy::{run_policy, PolicyError, PolicyRun};
use crate::rec::FileRecord;
use crate::sut::{compile_g, Compiled};
use lipe_find_parser::ast::Expression;
use lipe_find_parser::RunOptions;

pub enum Tv {
    /// Agreed on `records` records.
    Agree { records: usize, compiled: Compiled, run: PolicyRun, truths: Vec<bool> },
    /// The reference does not define this case (unspecified corner) or nothing left to compare.
    Skip(String),
    /// compile returned Err (text).
    Refused(String),
    Bad { kind: String, what: String, detail: J },
}

pub fn outcome_json(o: &Outcome) -> J {
    J::obj(vec![
        ("truth", J::Bool(o.truth)),
        ("stop", J::Bool(o.stop)),
        ("outs", J::Arr(o.outs.iter().map(|(d, s)| J::Arr(vec![J::s(format!("{:?}", d)), J::s(s)])).collect())),
    ])
}

pub const MDT: &str = "/dev/mapper/mdt0";

/// Keep only the records the reference defines; None if the tree itself is outside the supported set.
pub fn defined_records(e: &Expression, recs: Vec<FileRecord>, now_lo: i128, now_hi: i128) -> Result<Vec<FileRecord>, Undefined> {
    let mut keep = vec![];
    for r in recs {
        let a = reference(e, &r, now_lo);
        let b = reference(e, &r, now_hi);
        match (a, b) {
            (Ok(_), Ok(_)) => keep.push(r),
            (Err(Undefined::Unsupported(s)), _) | (_, Err(Undefined::Unsupported(s))) => return Err(Undefined::Unsupported(s)),
            _ => {}
        }
    }
    Ok(keep)
}

pub fn validate(e: &Expression, opts: &RunOptions, mk_records: &mut dyn FnMut(i128) -> Vec<FileRecord>) -> Tv {
    validate_as(e, e, opts, mk_records)
}

/// Compile and run `e`, but take the reference meaning from `eref` (e.g. `e` with option nodes
/// replaced by -true).
pub fn validate_as(e: &Expression, eref: &Expression, opts: &RunOptions, mk_records: &mut dyn FnMut(i128) -> Vec<FileRecord>) -> Tv {
    for _attempt in 0..3 {
        let (res, t0, t1) = match compile_g(e, opts, MDT) {
            Ok(v) => v,
            Err(p) => return Tv::Bad { kind: p.sig(), what: format!("compile panicked: {}", p.0), detail: J::Null },
        };
        if t1 - t0 > 1 {
            continue;
        }
        let compiled = match res {
            Ok(c) => c,
            Err(msg) => return Tv::Refused(msg),
        };
        let recs = mk_records(t1);
        let recs = match defined_records(eref, recs, t0, t1) {
            Ok(r) => r,
            Err(u) => return Tv::Skip(format!("{:?}", u)),
        };
        if recs.is_empty() {
            return Tv::Skip("no record on which the expression is defined".into());
        }
        let run = match run_policy(&compiled.text, compiled.io_map.as_ref(), recs.clone()) {
            Ok(r) => r,
            Err(pe) if pe.is_model_limit() => {
                return Tv::Bad { kind: "model-lacks".into(), what: format!("{}", pe), detail: J::Null };
            }
            Err(pe) => {
                let kind = match &pe {
                    PolicyError::Read(_) => "read-error",
                    PolicyError::Shape(_) => "shape",
                    PolicyError::Eval(ev) => match ev {
                        crate::eval::EvalError::Unbound(_) => "unbound",
                        crate::eval::EvalError::Unmodelled(_) => "model-lacks",
                        crate::eval::EvalError::Other(s) if s.contains("MODEL-OVERFLOW") || s.contains("model step budget") => "model-lacks",
                        crate::eval::EvalError::Format(_) => "format-error",
                        crate::eval::EvalError::Deadlock(_) => "deadlock",
                        _ => "runtime-error",
                    },
                    PolicyError::Decode(_) => "decode",
                };
                return Tv::Bad { kind: kind.to_string(), what: format!("{}", pe), detail: J::obj(vec![("program", J::s(&compiled.text))]) };
            }
        };
        if run.outcomes.len() != recs.len() {
            return Tv::Bad {
                kind: "record-count".into(),
                what: format!("policy ran on {} of {} records", run.outcomes.len(), recs.len()),
                detail: J::obj(vec![("program", J::s(&compiled.text))]),
            };
        }
        // the policy must match the reference for one clock value in [t0, t1], the same for all records
        let mut last_bad = None;
        let modes = RefMode::candidates(eref);
        for (now, mode) in (t0..=t1).flat_map(|n| modes.iter().map(move |m| (n, *m))) {
            let mut bad = None;
            for (i, r) in recs.iter().enumerate() {
                let want = match reference_mode(eref, r, now, mode) {
                    Ok(w) => w,
                    Err(_) => {
                        // under this reading the record reaches an undefined leaf: the reading does not apply
                        bad = Some(("reading-not-applicable".to_string(), String::new(), J::Null));
                        break;
                    }
                };
                if want != run.outcomes[i] {
                    let kind = if want.truth != run.outcomes[i].truth {
                        "truth"
                    } else if want.outs != run.outcomes[i].outs {
                        "outputs"
                    } else {
                        "stop"
                    };
                    bad = Some((
                        kind.to_string(),
                        format!("record {}: expected {:?}, policy gave {:?}", i, want, run.outcomes[i]),
                        J::obj(vec![
                            ("record", J::s(format!("{:?}", r))),
                            ("expected", outcome_json(&want)),
                            ("observed", outcome_json(&run.outcomes[i])),
                            ("program", J::s(&compiled.text)),
                            ("now", J::Int(now)),
                        ]),
                    ));
                    break;
                }
            }
            match bad {
                None => {
                    let truths = run.outcomes.iter().map(|o| o.truth).collect();
                    return Tv::Agree { records: recs.len(), compiled, run, truths };
                }
                Some(b) => {
                    // report the disagreement with the default reading
                    if b.0 != "reading-not-applicable" && (last_bad.is_none() || mode == RefMode::default()) {
                        last_bad = Some(b);
                    }
                }
            }
        }
        if t0 != t1 {
            continue; // clock ticked during compile: try again rather than guess
        }
        let (kind, what, detail) = match last_bad {
            Some(b) => b,
            None => return Tv::Skip("no reading applies to every record".into()),
        };
        return Tv::Bad { kind, what, detail };
    }
    Tv::Skip("clock kept ticking during compile".into())
}
