//! Model Guile/LiPE runtime: evaluates the emitted policy text (as read by `sexp`) over file records.
//! Only what a generated policy may legally use is defined; everything else is an error, as it
//! would be in Guile (unbound variable, wrong arity, wrong type).

use crate::fnmatch::{fnmatch, streq};
use crate::rec::FileRecord;
use crate::sexp::Sx;
use std::collections::HashSet;
use std::rc::Rc;

#[derive(Clone, Debug, PartialEq)]
pub enum Dest {
    Stdout,
    File(String),
}

#[derive(Clone)]
pub enum V {
    Unspec,
    Bool(bool),
    Int(i128),
    Rat(i128, i128),
    Str(Rc<String>),
    Char(char),
    List(Rc<Vec<V>>),
    Lambda(Rc<Lambda>),
    Prim(&'static str),
    Printer(Rc<PrinterObj>),
    Port(usize),
    Mutex(usize),
    Tm(i128),
    Sentinel(&'static str),
}

pub struct Lambda {
    pub params: Vec<String>,
    pub body: Vec<Sx>,
    pub env: Env,
}

pub struct PrinterObj {
    pub port: usize,
    pub mutex: usize,
    pub delim: Option<char>,
}

#[derive(Clone, Debug, PartialEq)]
pub enum EvalError {
    Unbound(String),
    /// a standard Guile / R5RS name the model does not implement: the run cannot be decided
    Unmodelled(String),
    Arity(String),
    Type(String),
    Format(String),
    Deadlock(String),
    Port(String),
    Other(String),
}

impl std::fmt::Display for EvalError {
    fn fmt(&self, f: &mut std::fmt::Formatter) -> std::fmt::Result {
        match self {
            EvalError::Unbound(s) => write!(f, "Unbound variable: {}", s),
            EvalError::Unmodelled(s) => write!(f, "the model runtime does not implement the standard procedure or form `{}`", s),
            EvalError::Arity(s) => write!(f, "Wrong number of arguments: {}", s),
            EvalError::Type(s) => write!(f, "Wrong type argument: {}", s),
            EvalError::Format(s) => write!(f, "format: {}", s),
            EvalError::Deadlock(s) => write!(f, "deadlock: {}", s),
            EvalError::Port(s) => write!(f, "port: {}", s),
            EvalError::Other(s) => write!(f, "{}", s),
        }
    }
}

type R = Result<V, EvalError>;

#[derive(Clone)]
pub struct Env(Option<Rc<Frame>>);
pub struct Frame {
    name: String,
    val: std::cell::RefCell<V>,
    parent: Env,
}

impl Env {
    pub fn empty() -> Env {
        Env(None)
    }
    pub fn bind(&self, name: &str, val: V) -> Env {
        Env(Some(Rc::new(Frame { name: name.to_string(), val: std::cell::RefCell::new(val), parent: self.clone() })))
    }
    /// Overwrite the innermost binding of `name` (letrec / internal define initialisation).
    pub fn set(&self, name: &str, val: V) -> bool {
        let mut cur = &self.0;
        while let Some(f) = cur {
            if f.name == name {
                *f.val.borrow_mut() = val;
                return true;
            }
            cur = &f.parent.0;
        }
        false
    }
    pub fn get(&self, name: &str) -> Option<V> {
        let mut cur = &self.0;
        while let Some(f) = cur {
            if f.name == name {
                return Some(f.val.borrow().clone());
            }
            cur = &f.parent.0;
        }
        None
    }
}

#[derive(Clone, Debug, PartialEq)]
pub enum StepKind {
    Lock(usize),
    Unlock(usize),
    Write(usize, String),
}

#[derive(Clone, Debug, PartialEq)]
pub struct Step {
    pub thread: usize,
    pub kind: StepKind,
}

pub struct Port {
    pub dest: Dest,
    pub data: String,
    pub closed: bool,
}

/// What one thunk call (one record) did.
#[derive(Clone, Debug)]
pub struct RecRun {
    pub truth: bool,
    pub writes: Vec<(usize, String)>,
    pub stop: bool,
    pub steps: Vec<Step>,
}

#[derive(Clone, Debug)]
pub struct ScanCall {
    pub device: String,
    pub mount_is_getopt: bool,
    pub attrs_is_getopt: bool,
    pub threads: Option<i128>, // None = (lipe-getopt-thread-count) sentinel
}

pub const RUNTIME_LOCK: usize = 0;

pub struct World {
    pub ports: Vec<Port>,
    pub mutex_owner: Vec<Option<usize>>,
    pub records: Vec<FileRecord>,
    pub cur: Option<usize>,
    pub stop: bool,
    pub thread: usize,
    /// When true, lock/write/unlock steps are only recorded (C16) and applied later by a scheduler.
    pub defer: bool,
    /// honour lipe-scan-break by ending the scan (off by default so every record is compared)
    pub break_on_stop: bool,
    /// thread assignment for deferred mode: records[i] runs on thread assign[i]
    pub assign: Vec<usize>,
    pub steps: Vec<Step>,
    pub cur_writes: Vec<(usize, String)>,
    pub runs: Vec<RecRun>,
    pub scan: Option<ScanCall>,
    pub modules: Vec<String>,
    pub mount: String,
    pub kept_alive: Vec<V>,
    pub failed_record: Option<usize>,
    pub matcher_objs: HashSet<usize>,
    pub printer_objs: HashSet<usize>,
    pub wrote_in_call: bool,
    pub call_depth_user: usize,
    pub in_thunk: bool,
    pub eval_count: u64,
    pub after_scan_closed: Vec<usize>,
    pub scan_returned: bool,
    pub writes_after_scan: usize,
}

impl World {
    pub fn new(records: Vec<FileRecord>) -> World {
        let mount = records.first().map(|r| r.mount.clone()).unwrap_or_else(|| "/mnt/lustre".to_string());
        World {
            ports: vec![Port { dest: Dest::Stdout, data: String::new(), closed: false }],
            mutex_owner: vec![None], // index 0 = the runtime's own stdout lock
            records,
            cur: None,
            stop: false,
            thread: 0,
            defer: false,
            break_on_stop: false,
            assign: vec![],
            steps: vec![],
            cur_writes: vec![],
            runs: vec![],
            scan: None,
            modules: vec![],
            mount,
            kept_alive: vec![],
            failed_record: None,
            matcher_objs: HashSet::new(),
            printer_objs: HashSet::new(),
            wrote_in_call: false,
            call_depth_user: 0,
            in_thunk: false,
            eval_count: 0,
            after_scan_closed: vec![],
            scan_returned: false,
            writes_after_scan: 0,
        }
    }

    fn rec(&self) -> Result<&FileRecord, EvalError> {
        match self.cur {
            Some(i) => Ok(&self.records[i]),
            None => Err(EvalError::Other("file accessor used outside of a scan callback".into())),
        }
    }

    fn lock(&mut self, m: usize) -> Result<(), EvalError> {
        self.steps.push(Step { thread: self.thread, kind: StepKind::Lock(m) });
        if self.defer {
            return Ok(());
        }
        if m >= self.mutex_owner.len() {
            return Err(EvalError::Other("bad mutex".into()));
        }
        if self.mutex_owner[m].is_some() {
            return Err(EvalError::Deadlock(format!("mutex {} locked while already held (mutexes are not recursive)", m)));
        }
        self.mutex_owner[m] = Some(self.thread);
        Ok(())
    }

    fn unlock(&mut self, m: usize) -> Result<(), EvalError> {
        self.steps.push(Step { thread: self.thread, kind: StepKind::Unlock(m) });
        if self.defer {
            return Ok(());
        }
        if self.mutex_owner[m] != Some(self.thread) {
            return Err(EvalError::Other("unlock of a mutex not held".into()));
        }
        self.mutex_owner[m] = None;
        Ok(())
    }

    fn write(&mut self, p: usize, s: &str) -> Result<(), EvalError> {
        if p >= self.ports.len() {
            return Err(EvalError::Port("bad port".into()));
        }
        if self.ports[p].closed {
            return Err(EvalError::Port("write to a closed port".into()));
        }
        self.wrote_in_call = true;
        if self.scan_returned {
            self.writes_after_scan += 1;
        }
        self.steps.push(Step { thread: self.thread, kind: StepKind::Write(p, s.to_string()) });
        self.cur_writes.push((p, s.to_string()));
        if !self.defer {
            self.ports[p].data.push_str(s);
        }
        Ok(())
    }
}

pub struct Interp {
    pub w: World,
}

fn truthy(v: &V) -> bool {
    !matches!(v, V::Bool(false))
}

fn s(v: &str) -> V {
    V::Str(Rc::new(v.to_string()))
}

pub fn display_string(v: &V) -> String {
    match v {
        V::Unspec => "#<unspecified>".into(),
        V::Bool(true) => "#t".into(),
        V::Bool(false) => "#f".into(),
        V::Int(i) => i.to_string(),
        V::Rat(n, d) => format!("{}/{}", n, d),
        V::Str(s) => s.to_string(),
        V::Char(c) => c.to_string(),
        V::List(l) => format!("({})", l.iter().map(display_string).collect::<Vec<_>>().join(" ")),
        V::Lambda(_) | V::Prim(_) | V::Printer(_) => "#<procedure>".into(),
        V::Port(p) => format!("#<port {}>", p),
        V::Mutex(m) => format!("#<mutex {}>", m),
        V::Tm(t) => format!("#<tm {}>", t),
        V::Sentinel(s) => format!("#<{}>", s),
    }
}

fn gcd(a: i128, b: i128) -> i128 {
    if b == 0 {
        a.abs()
    } else {
        gcd(b, a % b)
    }
}

fn equal(a: &V, b: &V) -> bool {
    match (a, b) {
        (V::Bool(x), V::Bool(y)) => x == y,
        (V::Int(x), V::Int(y)) => x == y,
        (V::Rat(a, b), V::Rat(c, d)) => a == c && b == d,
        (V::Str(x), V::Str(y)) => x == y,
        (V::Char(x), V::Char(y)) => x == y,
        (V::List(x), V::List(y)) => x.len() == y.len() && x.iter().zip(y.iter()).all(|(p, q)| equal(p, q)),
        (V::Port(x), V::Port(y)) => x == y,
        (V::Mutex(x), V::Mutex(y)) => x == y,
        (V::Unspec, V::Unspec) => true,
        _ => false,
    }
}

const PRIMS: &[&str] = &[
    "=", "<", ">", "<=", ">=", "+", "-", "*", "/", "quotient", "remainder", "modulo", "logand", "logior", "not", "member", "equal?", "string=?",
    "truncate-quotient", "truncate-remainder", "floor-quotient", "floor-remainder", "euclidean-quotient", "euclidean-remainder", "floor", "ceiling", "round", "truncate",
    "format", "display", "newline", "string", "string-append", "number->string", "make-mutex", "current-output-port", "open-file", "open-output-file",
    "close-port", "strftime", "localtime", "dynamic-wind", "uid", "gid", "ino", "nlink", "size", "blocks", "mode", "atime", "ctime", "mtime",
    "projid", "file-fid", "name", "relative-path", "absolute-path", "user", "group", "type", "type->char", "lov-pools", "lov-stripe-count",
    "lov-stripe-size", "lov-mirror-count", "xattr?", "xattr-ref-string", "xattr-match?", "call-with-name", "call-with-relative-path",
    "call-with-absolute-path", "dirname", "basename", "streq?", "streq-ci?", "fnmatch?", "fnmatch-ci?", "round-up-power-of-2", "make-printer",
    "print-relative-path", "print-absolute-path", "print-file-fid", "lipe-scan", "lipe-scan-break", "lipe-getopt-client-mount-path",
    "lipe-getopt-required-attrs", "lipe-getopt-thread-count", "lipe-scan-client-mount-path", "empty", "readable", "writable", "executable",
    "lock-mutex", "unlock-mutex", "list", "force-output", "put-u8", "put-char", "put-string", "write-char", "write-string", "integer->char", "char->integer",
    "simple-format", "zero?", "positive?", "negative?", "even?", "odd?", "1+", "1-", "min", "max", "abs", "eq?", "eqv?", "null?", "pair?", "list?", "car", "cdr", "cons", "cadr", "length",
    "append", "reverse", "list-ref", "memq", "memv", "assoc", "assq", "assv", "string?", "number?", "integer?", "boolean?", "char?", "procedure?", "string-length", "string-upcase",
    "string-downcase", "string-prefix?", "string-suffix?", "string-contains", "substring", "string-ref", "string-null?", "string<?", "char=?", "apply", "map", "for-each", "expt", "ash", "logxor",
    "lognot", "logtest", "logbit?", "logcount", "integer-length", "identity", "const", "string->number", "string-join", "number->string/pad",
];

/// Standard Guile / R5RS / SRFI names the model does not implement: meeting one makes the run
/// inconclusive (the model cannot decide), not a violation.
pub const KNOWN_UNMODELLED: &[&str] = &[
    "set!", "do", "delay", "force", "call/cc", "call-with-current-continuation", "values", "call-with-values", "receive", "define-syntax", "let-syntax", "syntax-rules", "quasiquote", "unquote",
    "let-values", "let*-values", "case-lambda", "lambda*", "define*", "parameterize", "make-parameter", "fluid-let", "with-fluids", "catch", "throw", "error", "with-exception-handler", "raise",
    "assert", "vector", "make-vector", "vector-ref", "vector-set!", "vector-length", "vector->list", "list->vector", "make-string", "string-set!", "string-copy", "string-fill!", "string->list",
    "list->string", "string->symbol", "symbol->string", "symbol?", "string-split", "string-trim", "string-trim-both", "string-trim-right", "string-pad", "string-pad-right", "string-index",
    "string-rindex", "string-map", "string-for-each", "string-fold", "string-concatenate", "string-reverse", "string-take", "string-drop", "string-count", "string-tokenize", "string-filter",
    "string-delete", "string-replace", "string-ci=?", "string>?", "string<=?", "string>=?", "char<?", "char>?", "char-upcase", "char-downcase", "char-alphabetic?", "char-numeric?", "char-whitespace?",
    "exact->inexact", "inexact->exact", "exact", "inexact", "floor/", "truncate/", "euclidean/", "sqrt", "exp", "log", "sin", "cos",
    "number?", "real?", "rational?", "exact?", "inexact?", "nan?", "gcd", "lcm", "numerator", "denominator", "bit-extract", "arithmetic-shift",
    "filter", "filter-map", "fold", "fold-right", "reduce", "any", "every", "find", "find-tail", "delete", "delete-duplicates", "remove", "partition", "iota", "last", "last-pair", "list-tail",
    "list-head", "list-copy", "sort", "assoc-ref", "assq-ref", "assv-ref", "acons", "hash-ref", "hash-set!", "make-hash-table", "hashq-ref", "hashq-set!", "caar", "cddr", "cdar", "caddr",
    "set-car!", "set-cdr!", "call-with-output-string", "with-output-to-string", "call-with-input-string", "open-output-string", "get-output-string", "open-input-string", "read", "write", "write-line",
    "read-line", "peek-char", "read-char", "eof-object?", "current-error-port", "current-input-port", "with-output-to-port", "port?", "output-port?", "flush-all-ports", "setvbuf", "set-port-encoding!",
    "make-condition-variable", "wait-condition-variable", "signal-condition-variable", "broadcast-condition-variable", "make-recursive-mutex", "try-mutex", "mutex-locked?", "monitor",
    "call-with-new-thread", "join-thread", "current-thread", "yield", "par-map", "par-for-each", "n-par-map", "future", "touch", "make-thread", "begin-thread", "with-mutex*", "atomic-box-ref",
    "gettimeofday", "current-time", "gmtime", "mktime", "strptime", "getenv", "getpid", "getuid", "getcwd", "system", "exit", "quit", "sleep", "usleep", "stat", "stat:size", "stat:mode", "stat:mtime",
    "file-exists?", "delete-file", "rename-file", "mkdir", "opendir", "readdir", "closedir", "getpwuid", "getpwnam", "getgrgid", "passwd:name", "group:name", "regexp-exec", "make-regexp", "string-match",
    "regexp-match?", "match:substring", "object->string", "symbol-append", "gensym", "void", "noop", "unspecified?", "defined?", "eval", "primitive-eval", "load", "include", "module-ref", "resolve-module", "@", "@@",
    "call-with-port", "dynamic-unwind", "bytevector-u8-ref", "put-bytevector", "string->utf8", "utf8->string", "char-ready?", "truncate-quotient", "exact-integer?", "list-index", "first", "second", "third",
];

fn prim_name(name: &str) -> Option<&'static str> {
    PRIMS.iter().find(|p| **p == name).copied()
}

impl Interp {
    pub fn new(records: Vec<FileRecord>) -> Interp {
        Interp { w: World::new(records) }
    }

    /// Run a whole program text (already read). Returns after the top-level forms completed.
    pub fn run_program(&mut self, forms: &[Sx]) -> Result<(), EvalError> {
        let env = Env::empty();
        for f in forms {
            if f.head() == Some("use-modules") {
                for m in &f.list().unwrap()[1..] {
                    self.w.modules.push(m.show());
                }
                continue;
            }
            self.eval(f, &env)?;
        }
        Ok(())
    }

    pub fn eval(&mut self, x: &Sx, env: &Env) -> R {
        self.w.eval_count += 1;
        if self.w.eval_count > 5_000_000 {
            return Err(EvalError::Other("model step budget exceeded".into()));
        }
        match x {
            Sx::Int(i) => Ok(V::Int(*i)),
            Sx::Str(st) => Ok(s(st)),
            Sx::Char(c) => Ok(V::Char(*c)),
            Sx::Bool(b) => Ok(V::Bool(*b)),
            Sx::Sym(name) => {
                if let Some(v) = env.get(name) {
                    return Ok(v);
                }
                if name == "*unspecified*" {
                    return Ok(V::Unspec);
                }
                match prim_name(name) {
                    Some(p) => Ok(V::Prim(p)),
                    None => {
                        if KNOWN_UNMODELLED.contains(&name.as_str()) {
                            Err(EvalError::Unmodelled(name.clone()))
                        } else {
                            Err(EvalError::Unbound(name.clone()))
                        }
                    }
                }
            }
            Sx::List(items) => {
                if items.is_empty() {
                    return Err(EvalError::Other("empty combination ()".into()));
                }
                if let Sx::Sym(h) = &items[0] {
                    if env.get(h).is_none() {
                        match h.as_str() {
                            "let*" | "let" | "letrec" => return self.eval_let(h, items, env),
                            "letrec*" => return self.eval_let("letrec", items, env),
                            "lambda" => {
                                if items.len() < 3 {
                                    return Err(EvalError::Other("bad lambda".into()));
                                }
                                let params = match &items[1] {
                                    Sx::List(ps) => {
                                        let mut v = vec![];
                                        for p in ps {
                                            match p {
                                                Sx::Sym(n) => v.push(n.clone()),
                                                _ => return Err(EvalError::Other("bad lambda parameter".into())),
                                            }
                                        }
                                        v
                                    }
                                    _ => return Err(EvalError::Unmodelled("lambda with a rest argument".into())),
                                };
                                return Ok(V::Lambda(Rc::new(Lambda { params, body: items[2..].to_vec(), env: env.clone() })));
                            }
                            "and" => {
                                let mut last = V::Bool(true);
                                for e in &items[1..] {
                                    last = self.eval(e, env)?;
                                    if !truthy(&last) {
                                        return Ok(last);
                                    }
                                }
                                return Ok(last);
                            }
                            "or" => {
                                for e in &items[1..] {
                                    let v = self.eval(e, env)?;
                                    if truthy(&v) {
                                        return Ok(v);
                                    }
                                }
                                return Ok(V::Bool(false));
                            }
                            "if" => {
                                if items.len() < 3 || items.len() > 4 {
                                    return Err(EvalError::Other("bad if".into()));
                                }
                                let c = self.eval(&items[1], env)?;
                                if truthy(&c) {
                                    return self.eval(&items[2], env);
                                } else if items.len() == 4 {
                                    return self.eval(&items[3], env);
                                }
                                return Ok(V::Unspec);
                            }
                            "when" | "unless" => {
                                if items.len() < 2 {
                                    return Err(EvalError::Other("bad when".into()));
                                }
                                let c = truthy(&self.eval(&items[1], env)?);
                                if c == (h == "when") {
                                    return self.eval_body(&items[2..], env);
                                }
                                return Ok(V::Unspec);
                            }
                            "begin" => return self.eval_body(&items[1..], env),
                            "cond" => {
                                for clause in &items[1..] {
                                    let c = match clause {
                                        Sx::List(c) if !c.is_empty() => c,
                                        _ => return Err(EvalError::Other("bad cond clause".into())),
                                    };
                                    if c[0].sym() == Some("else") {
                                        return self.eval_body(&c[1..], env);
                                    }
                                    let t = self.eval(&c[0], env)?;
                                    if truthy(&t) {
                                        if c.len() == 1 {
                                            return Ok(t);
                                        }
                                        if c[1].sym() == Some("=>") {
                                            if c.len() != 3 {
                                                return Err(EvalError::Other("bad cond => clause".into()));
                                            }
                                            let f = self.eval(&c[2], env)?;
                                            return self.apply(&f, vec![t]);
                                        }
                                        return self.eval_body(&c[1..], env);
                                    }
                                }
                                return Ok(V::Unspec);
                            }
                            "case" => {
                                if items.len() < 2 {
                                    return Err(EvalError::Other("bad case".into()));
                                }
                                let key = self.eval(&items[1], env)?;
                                for clause in &items[2..] {
                                    let c = match clause {
                                        Sx::List(c) if !c.is_empty() => c,
                                        _ => return Err(EvalError::Other("bad case clause".into())),
                                    };
                                    let hit = if c[0].sym() == Some("else") {
                                        true
                                    } else {
                                        match &c[0] {
                                            Sx::List(ds) => ds.iter().any(|d| equal(&quote(d), &key)),
                                            _ => return Err(EvalError::Other("bad case datum list".into())),
                                        }
                                    };
                                    if hit {
                                        return self.eval_body(&c[1..], env);
                                    }
                                }
                                return Ok(V::Unspec);
                            }
                            "quote" => {
                                if items.len() != 2 {
                                    return Err(EvalError::Other("bad quote".into()));
                                }
                                return Ok(quote(&items[1]));
                            }
                            "with-mutex" => {
                                if !self.w.modules.iter().any(|m| m.contains("(ice-9 threads)")) {
                                    // with-mutex is exported by (ice-9 threads); without the import it is unbound in Guile
                                    return Err(EvalError::Unbound("with-mutex (the program does not import (ice-9 threads))".into()));
                                }
                                if items.len() < 2 {
                                    return Err(EvalError::Other("bad with-mutex".into()));
                                }
                                let m = match self.eval(&items[1], env)? {
                                    V::Mutex(m) => m,
                                    other => return Err(EvalError::Type(format!("with-mutex: not a mutex: {}", display_string(&other)))),
                                };
                                self.w.lock(m)?;
                                let r = self.eval_body(&items[2..], env);
                                let u = self.w.unlock(m);
                                let v = r?;
                                u?;
                                return Ok(v);
                            }
                            "define" | "use-modules" => {
                                return Err(EvalError::Other(format!("{} not expected in expression position of a generated policy", h)));
                            }
                            _ => {}
                        }
                    }
                }
                let f = self.eval(&items[0], env)?;
                let mut args = Vec::with_capacity(items.len() - 1);
                for a in &items[1..] {
                    args.push(self.eval(a, env)?);
                }
                self.apply(&f, args)
            }
        }
    }

    fn eval_body(&mut self, body: &[Sx], env: &Env) -> R {
        let mut last = V::Unspec;
        let mut env = env.clone();
        for e in body {
            // internal definitions: (define name expr) / (define (name . formals) body...)
            if e.head() == Some("define") && env.get("define").is_none() {
                let l = e.list().unwrap();
                if l.len() < 3 {
                    return Err(EvalError::Other("bad define".into()));
                }
                match &l[1] {
                    Sx::Sym(n) => {
                        env = env.bind(n, V::Unspec);
                        let v = self.eval(&l[2], &env)?;
                        env.set(n, v);
                    }
                    Sx::List(sig) if !sig.is_empty() => {
                        let n = sig[0].sym().ok_or_else(|| EvalError::Other("bad define".into()))?.to_string();
                        let mut lam = vec![Sx::Sym("lambda".into()), Sx::List(sig[1..].to_vec())];
                        lam.extend(l[2..].iter().cloned());
                        env = env.bind(&n, V::Unspec);
                        let v = self.eval(&Sx::List(lam), &env)?;
                        env.set(&n, v);
                    }
                    _ => return Err(EvalError::Other("bad define".into())),
                }
                last = V::Unspec;
                continue;
            }
            last = self.eval(e, &env)?;
        }
        Ok(last)
    }

    fn eval_let(&mut self, kind: &str, items: &[Sx], env: &Env) -> R {
        if items.len() < 3 {
            return Err(EvalError::Other(format!("bad {}", kind)));
        }
        // named let: (let loop ((v init) ...) body...)
        if kind == "let" {
            if let Sx::Sym(name) = &items[1] {
                if items.len() < 4 {
                    return Err(EvalError::Other("bad named let".into()));
                }
                let binds = items[2].list().ok_or_else(|| EvalError::Other("bad named let".into()))?;
                let mut params = vec![];
                let mut inits = vec![];
                for b in binds {
                    let p = b.list().filter(|p| p.len() == 2).ok_or_else(|| EvalError::Other("bad named let binding".into()))?;
                    params.push(p[0].clone());
                    inits.push(self.eval(&p[1], env)?);
                }
                let mut lam = vec![Sx::Sym("lambda".into()), Sx::List(params)];
                lam.extend(items[3..].iter().cloned());
                let inner = env.bind(name, V::Unspec);
                let f = self.eval(&Sx::List(lam), &inner)?;
                inner.set(name, f.clone());
                return self.apply(&f, inits);
            }
        }
        if kind == "letrec" {
            let binds = items[1].list().ok_or_else(|| EvalError::Other("bad letrec".into()))?;
            let mut inner = env.clone();
            let mut names = vec![];
            for b in binds {
                let p = b.list().filter(|p| p.len() == 2).ok_or_else(|| EvalError::Other("bad letrec binding".into()))?;
                let n = p[0].sym().ok_or_else(|| EvalError::Other("bad letrec binding".into()))?.to_string();
                inner = inner.bind(&n, V::Unspec);
                names.push((n, p[1].clone()));
            }
            for (n, init) in names {
                let v = self.eval(&init, &inner)?;
                inner.set(&n, v);
            }
            return self.eval_body(&items[2..], &inner);
        }
        let binds = match &items[1] {
            Sx::List(b) => b,
            _ => return Err(EvalError::Other("bad let bindings".into())),
        };
        let mut inner = env.clone();
        for b in binds {
            let pair = match b {
                Sx::List(p) if p.len() == 2 => p,
                _ => return Err(EvalError::Other(format!("bad binding in {}: {}", kind, b.show()))),
            };
            let name = match &pair[0] {
                Sx::Sym(n) => n,
                _ => return Err(EvalError::Other("binding name is not a symbol".into())),
            };
            let v = if kind == "let*" { self.eval(&pair[1], &inner)? } else { self.eval(&pair[1], env)? };
            inner = inner.bind(name, v);
        }
        self.eval_body(&items[2..], &inner)
    }

    pub fn apply(&mut self, f: &V, args: Vec<V>) -> R {
        // identity of the procedures the policy body calls directly (matchers / printers): C11
        let id = match f {
            V::Lambda(l) => Rc::as_ptr(l) as *const u8 as usize,
            V::Printer(p) => Rc::as_ptr(p) as *const u8 as usize,
            _ => 0,
        };
        if id == 0 {
            return self.apply_inner(f, args);
        }
        self.w.call_depth_user += 1;
        let tracked = self.w.in_thunk && self.w.call_depth_user == 2;
        if tracked && !self.w.matcher_objs.contains(&id) && !self.w.printer_objs.contains(&id) {
            self.w.kept_alive.push(f.clone());
        }
        let before = self.w.wrote_in_call;
        if tracked {
            self.w.wrote_in_call = false;
        }
        let r = self.apply_inner(f, args);
        self.w.call_depth_user -= 1;
        if tracked {
            let wrote = self.w.wrote_in_call;
            self.w.wrote_in_call = before || wrote;
            if wrote {
                self.w.printer_objs.insert(id);
            } else if r.is_ok() {
                self.w.matcher_objs.insert(id);
            }
        }
        r
    }

    fn apply_inner(&mut self, f: &V, args: Vec<V>) -> R {
        match f {
            V::Lambda(l) => {
                if l.params.len() != args.len() {
                    return Err(EvalError::Arity(format!("lambda expects {} got {}", l.params.len(), args.len())));
                }
                let mut env = l.env.clone();
                for (p, a) in l.params.iter().zip(args.into_iter()) {
                    env = env.bind(p, a);
                }
                let body = l.body.clone();
                self.eval_body(&body, &env)
            }
            V::Printer(p) => {
                if args.len() != 1 {
                    return Err(EvalError::Arity("printer expects 1 argument".into()));
                }
                let text = match &args[0] {
                    V::Str(t) => t.to_string(),
                    other => display_string(other),
                };
                self.w.lock(p.mutex)?;
                let r1 = self.w.write(p.port, &text);
                let r2 = match (r1.is_ok(), p.delim) {
                    (true, Some(d)) => self.w.write(p.port, &d.to_string()),
                    _ => Ok(()),
                };
                self.w.unlock(p.mutex)?;
                r1?;
                r2?;
                Ok(V::Bool(true))
            }
            V::Prim(name) => self.prim(name, args),
            other => Err(EvalError::Type(format!("Wrong type to apply: {}", display_string(other)))),
        }
    }

    fn call_tracked(&mut self, f: &V, arg: V) -> R {
        self.apply(f, vec![arg])
    }

    fn num(v: &V, who: &str) -> Result<(i128, i128), EvalError> {
        match v {
            V::Int(i) => Ok((*i, 1)),
            V::Rat(n, d) => Ok((*n, *d)),
            other => Err(EvalError::Type(format!("{}: not a number: {}", who, display_string(other)))),
        }
    }
    fn int(v: &V, who: &str) -> Result<i128, EvalError> {
        match v {
            V::Int(i) => Ok(*i),
            other => Err(EvalError::Type(format!("{}: not an integer: {}", who, display_string(other)))),
        }
    }
    fn string(v: &V, who: &str) -> Result<Rc<String>, EvalError> {
        match v {
            V::Str(s) => Ok(s.clone()),
            other => Err(EvalError::Type(format!("{}: not a string: {}", who, display_string(other)))),
        }
    }
    fn ovf(who: &str) -> EvalError {
        EvalError::Other(format!("MODEL-OVERFLOW in {}", who))
    }
    fn mkrat(n: i128, d: i128) -> V {
        let g = gcd(n, d);
        let (mut n, mut d) = (n / g, d / g);
        if d < 0 {
            n = -n;
            d = -d;
        }
        if d == 1 {
            V::Int(n)
        } else {
            V::Rat(n, d)
        }
    }

    fn arity(name: &str, args: &[V], lo: usize, hi: usize) -> Result<(), EvalError> {
        if args.len() < lo || args.len() > hi {
            Err(EvalError::Arity(format!("{} called with {} arguments", name, args.len())))
        } else {
            Ok(())
        }
    }

    fn prim(&mut self, name: &'static str, args: Vec<V>) -> R {
        let a = &args;
        macro_rules! field {
            ($f:ident) => {{
                Self::arity(name, a, 0, 0)?;
                Ok(V::Int(self.w.rec()?.$f as i128))
            }};
        }
        match name {
            "=" | "<" | ">" | "<=" | ">=" => {
                if a.is_empty() {
                    return Err(EvalError::Arity(name.into()));
                }
                let mut ok = true;
                for i in 0..a.len() {
                    Self::num(&a[i], name)?;
                }
                for i in 0..a.len().saturating_sub(1) {
                    let (n1, d1) = Self::num(&a[i], name)?;
                    let (n2, d2) = Self::num(&a[i + 1], name)?;
                    let l = n1.checked_mul(d2).ok_or_else(|| Self::ovf(name))?;
                    let r = n2.checked_mul(d1).ok_or_else(|| Self::ovf(name))?;
                    ok &= match name {
                        "=" => l == r,
                        "<" => l < r,
                        ">" => l > r,
                        "<=" => l <= r,
                        _ => l >= r,
                    };
                }
                Ok(V::Bool(ok))
            }
            "+" | "*" => {
                let (mut n, mut d): (i128, i128) = if name == "+" { (0, 1) } else { (1, 1) };
                for v in a {
                    let (vn, vd) = Self::num(v, name)?;
                    if name == "+" {
                        n = n.checked_mul(vd).and_then(|x| vn.checked_mul(d).and_then(|y| x.checked_add(y))).ok_or_else(|| Self::ovf(name))?;
                        d = d.checked_mul(vd).ok_or_else(|| Self::ovf(name))?;
                    } else {
                        n = n.checked_mul(vn).ok_or_else(|| Self::ovf(name))?;
                        d = d.checked_mul(vd).ok_or_else(|| Self::ovf(name))?;
                    }
                    let g = gcd(n, d).max(1);
                    n /= g;
                    d /= g;
                }
                Ok(Self::mkrat(n, d))
            }
            "-" => {
                if a.is_empty() {
                    return Err(EvalError::Arity("-".into()));
                }
                let (mut n, mut d) = Self::num(&a[0], name)?;
                if a.len() == 1 {
                    return Ok(Self::mkrat(-n, d));
                }
                for v in &a[1..] {
                    let (vn, vd) = Self::num(v, name)?;
                    n = n.checked_mul(vd).and_then(|x| vn.checked_mul(d).and_then(|y| x.checked_sub(y))).ok_or_else(|| Self::ovf(name))?;
                    d = d.checked_mul(vd).ok_or_else(|| Self::ovf(name))?;
                    let g = gcd(n, d).max(1);
                    n /= g;
                    d /= g;
                }
                Ok(Self::mkrat(n, d))
            }
            "/" => {
                Self::arity(name, a, 2, 2)?;
                let (n1, d1) = Self::num(&a[0], name)?;
                let (n2, d2) = Self::num(&a[1], name)?;
                if n2 == 0 {
                    return Err(EvalError::Other("Numerical overflow (division by zero)".into()));
                }
                let n = n1.checked_mul(d2).ok_or_else(|| Self::ovf(name))?;
                let d = d1.checked_mul(n2).ok_or_else(|| Self::ovf(name))?;
                Ok(Self::mkrat(n, d))
            }
            "quotient" | "remainder" | "modulo" | "truncate-quotient" | "truncate-remainder" | "floor-quotient" | "floor-remainder" | "euclidean-quotient" | "euclidean-remainder" => {
                Self::arity(name, a, 2, 2)?;
                let x = Self::int(&a[0], name)?;
                let y = Self::int(&a[1], name)?;
                if y == 0 {
                    return Err(EvalError::Other("Numerical overflow (division by zero)".into()));
                }
                // floor division: quotient rounded towards minus infinity, remainder has the sign of the divisor
                let fq = {
                    let q = x / y;
                    if (x % y != 0) && ((x < 0) != (y < 0)) {
                        q - 1
                    } else {
                        q
                    }
                };
                Ok(V::Int(match name {
                    "quotient" | "truncate-quotient" => x / y,
                    "remainder" | "truncate-remainder" => x % y,
                    "floor-quotient" => fq,
                    "modulo" | "floor-remainder" => x - fq * y,
                    "euclidean-quotient" => x.div_euclid(y),
                    _ => x.rem_euclid(y),
                }))
            }
            "floor" | "ceiling" | "round" | "truncate" => {
                Self::arity(name, a, 1, 1)?;
                match &a[0] {
                    V::Int(i) => Ok(V::Int(*i)),
                    V::Rat(n, d) => {
                        let (n, d) = (*n, *d); // d > 0
                        let fl = n.div_euclid(d);
                        let r = n.rem_euclid(d);
                        Ok(V::Int(match name {
                            "floor" => fl,
                            "ceiling" => fl + if r != 0 { 1 } else { 0 },
                            "truncate" => if n < 0 && r != 0 { fl + 1 } else { fl },
                            _ => {
                                // round half to even
                                let twice = 2 * r;
                                if twice > d || (twice == d && fl % 2 != 0) {
                                    fl + 1
                                } else {
                                    fl
                                }
                            }
                        }))
                    }
                    other => Err(EvalError::Type(format!("{}: not a number: {}", name, display_string(other)))),
                }
            }
            "logand" | "logior" => {
                let mut acc: i128 = if name == "logand" { -1 } else { 0 };
                for v in a {
                    let i = Self::int(v, name)?;
                    acc = if name == "logand" { acc & i } else { acc | i };
                }
                Ok(V::Int(acc))
            }
            "not" => {
                Self::arity(name, a, 1, 1)?;
                Ok(V::Bool(!truthy(&a[0])))
            }
            "member" => {
                Self::arity(name, a, 2, 2)?;
                match &a[1] {
                    V::List(l) => {
                        for (i, x) in l.iter().enumerate() {
                            if equal(&a[0], x) {
                                return Ok(V::List(Rc::new(l[i..].to_vec())));
                            }
                        }
                        Ok(V::Bool(false))
                    }
                    other => Err(EvalError::Type(format!("member: not a list: {}", display_string(other)))),
                }
            }
            "equal?" => {
                Self::arity(name, a, 2, 2)?;
                Ok(V::Bool(equal(&a[0], &a[1])))
            }
            "string=?" => {
                Self::arity(name, a, 2, 2)?;
                Ok(V::Bool(Self::string(&a[0], name)? == Self::string(&a[1], name)?))
            }
            "list" => Ok(V::List(Rc::new(args))),
            "format" => self.format(a),
            "display" => {
                Self::arity(name, a, 1, 2)?;
                let p = if a.len() == 2 {
                    match &a[1] {
                        V::Port(p) => *p,
                        other => return Err(EvalError::Type(format!("display: not a port: {}", display_string(other)))),
                    }
                } else {
                    0
                };
                let text = display_string(&a[0]);
                self.w.write(p, &text)?;
                Ok(V::Unspec)
            }
            "newline" => {
                Self::arity(name, a, 0, 1)?;
                let p = if a.len() == 1 {
                    match &a[0] {
                        V::Port(p) => *p,
                        other => return Err(EvalError::Type(format!("newline: not a port: {}", display_string(other)))),
                    }
                } else {
                    0
                };
                self.w.write(p, "\n")?;
                Ok(V::Unspec)
            }
            "force-output" => Ok(V::Unspec),
            "put-u8" | "put-char" | "put-string" => {
                // (put-u8 port byte) (put-char port char) (put-string port string): R6RS argument order
                Self::arity(name, a, 2, 2)?;
                let p = match &a[0] {
                    V::Port(p) => *p,
                    other => return Err(EvalError::Type(format!("{}: not a port: {}", name, display_string(other)))),
                };
                let text = match (name, &a[1]) {
                    ("put-u8", V::Int(b)) if *b >= 0 && *b < 256 => char::from_u32(*b as u32).unwrap().to_string(),
                    ("put-char", V::Char(c)) => c.to_string(),
                    ("put-string", V::Str(st)) => st.to_string(),
                    (_, other) => return Err(EvalError::Type(format!("{}: bad datum {}", name, display_string(other)))),
                };
                self.w.write(p, &text)?;
                Ok(V::Unspec)
            }
            "write-char" | "write-string" => {
                Self::arity(name, a, 1, 2)?;
                let p = if a.len() == 2 {
                    match &a[1] {
                        V::Port(p) => *p,
                        other => return Err(EvalError::Type(format!("{}: not a port: {}", name, display_string(other)))),
                    }
                } else {
                    0
                };
                let text = match (name, &a[0]) {
                    ("write-char", V::Char(c)) => c.to_string(),
                    ("write-string", V::Str(st)) => st.to_string(),
                    (_, other) => return Err(EvalError::Type(format!("{}: bad datum {}", name, display_string(other)))),
                };
                self.w.write(p, &text)?;
                Ok(V::Unspec)
            }
            "integer->char" => {
                Self::arity(name, a, 1, 1)?;
                let i = Self::int(&a[0], name)?;
                match u32::try_from(i).ok().and_then(char::from_u32) {
                    Some(c) => Ok(V::Char(c)),
                    None => Err(EvalError::Type("integer->char: out of range".into())),
                }
            }
            "char->integer" => {
                Self::arity(name, a, 1, 1)?;
                match &a[0] {
                    V::Char(c) => Ok(V::Int(*c as i128)),
                    other => Err(EvalError::Type(format!("char->integer: not a char: {}", display_string(other)))),
                }
            }
            "simple-format" => self.format(a),
            "string" => {
                let mut out = String::new();
                for v in a {
                    match v {
                        V::Char(c) => out.push(*c),
                        other => return Err(EvalError::Type(format!("string: not a character: {}", display_string(other)))),
                    }
                }
                Ok(s(&out))
            }
            "string-append" => {
                let mut out = String::new();
                for v in a {
                    out.push_str(&Self::string(v, name)?);
                }
                Ok(s(&out))
            }
            "number->string" => {
                Self::arity(name, a, 1, 1)?;
                Self::num(&a[0], name)?;
                Ok(s(&display_string(&a[0])))
            }
            "make-mutex" => {
                Self::arity(name, a, 0, 0)?;
                self.w.mutex_owner.push(None);
                Ok(V::Mutex(self.w.mutex_owner.len() - 1))
            }
            "lock-mutex" | "unlock-mutex" => {
                Self::arity(name, a, 1, 1)?;
                match &a[0] {
                    V::Mutex(m) => {
                        if name == "lock-mutex" {
                            self.w.lock(*m)?
                        } else {
                            self.w.unlock(*m)?
                        }
                        Ok(V::Bool(true))
                    }
                    other => Err(EvalError::Type(format!("{}: not a mutex: {}", name, display_string(other)))),
                }
            }
            "current-output-port" => {
                Self::arity(name, a, 0, 0)?;
                Ok(V::Port(0))
            }
            "open-file" | "open-output-file" => {
                if name == "open-file" {
                    Self::arity(name, a, 2, 2)?;
                    let mode = Self::string(&a[1], name)?;
                    if !mode.starts_with('w') && !mode.starts_with('a') {
                        return Err(EvalError::Port(format!("open-file: file opened with mode {:?}, not for writing", mode)));
                    }
                } else {
                    Self::arity(name, a, 1, 1)?;
                }
                let fname = Self::string(&a[0], name)?;
                if fname.contains('\0') {
                    return Err(EvalError::Port("open-file: file name contains NUL".into()));
                }
                self.w.ports.push(Port { dest: Dest::File(fname.to_string()), data: String::new(), closed: false });
                Ok(V::Port(self.w.ports.len() - 1))
            }
            "close-port" => {
                Self::arity(name, a, 1, 1)?;
                match &a[0] {
                    V::Port(p) => {
                        self.w.ports[*p].closed = true;
                        if self.w.scan_returned {
                            self.w.after_scan_closed.push(*p);
                        }
                        Ok(V::Bool(true))
                    }
                    other => Err(EvalError::Type(format!("close-port: not a port: {}", display_string(other)))),
                }
            }
            "localtime" => {
                Self::arity(name, a, 1, 2)?;
                Ok(V::Tm(Self::int(&a[0], name)?))
            }
            "strftime" => {
                Self::arity(name, a, 2, 2)?;
                let f = Self::string(&a[0], name)?;
                match &a[1] {
                    V::Tm(t) => Ok(s(&format!("<strftime:{}:{}>", f, t))),
                    other => Err(EvalError::Type(format!("strftime: not a broken-down time: {}", display_string(other)))),
                }
            }
            "dynamic-wind" => {
                Self::arity(name, a, 3, 3)?;
                self.apply(&a[0], vec![])?;
                let r = self.apply(&a[1], vec![]);
                let after = self.apply(&a[2], vec![]);
                let v = r?;
                after?;
                Ok(v)
            }
            "uid" => field!(uid),
            "gid" => field!(gid),
            "ino" => field!(ino),
            "nlink" => field!(nlink),
            "size" => field!(size),
            "blocks" => field!(blocks),
            "mode" => field!(mode),
            "atime" => field!(atime),
            "ctime" => field!(ctime),
            "mtime" => field!(mtime),
            "projid" => field!(projid),
            "lov-stripe-count" => field!(stripe_count),
            "lov-stripe-size" => field!(stripe_size),
            "lov-mirror-count" => field!(mirror_count),
            "file-fid" => {
                Self::arity(name, a, 0, 0)?;
                Ok(s(&self.w.rec()?.fid.clone()))
            }
            "name" => {
                Self::arity(name, a, 0, 0)?;
                Ok(s(&self.w.rec()?.name().to_string()))
            }
            "relative-path" => {
                Self::arity(name, a, 0, 0)?;
                Ok(s(&self.w.rec()?.relpath.clone()))
            }
            "absolute-path" => {
                Self::arity(name, a, 0, 0)?;
                Ok(s(&self.w.rec()?.abspath()))
            }
            "user" => {
                Self::arity(name, a, 0, 0)?;
                Ok(s(&self.w.rec()?.user.clone()))
            }
            "group" => {
                Self::arity(name, a, 0, 0)?;
                Ok(s(&self.w.rec()?.group.clone()))
            }
            "type" => {
                Self::arity(name, a, 0, 0)?;
                Ok(V::Int((self.w.rec()?.mode & crate::rec::S_IFMT) as i128 | (1 << 40)))
            }
            "type->char" => {
                Self::arity(name, a, 1, 1)?;
                let t = Self::int(&a[0], name)?;
                if t >> 40 != 1 {
                    return Err(EvalError::Type("type->char: not a file type object".into()));
                }
                let bits = (t & 0o170000) as u32;
                let c = crate::rec::TYPES.iter().find(|(_, b)| *b == bits).map(|(c, _)| *c).unwrap_or('U');
                Ok(s(&c.to_string()))
            }
            "lov-pools" => {
                Self::arity(name, a, 0, 0)?;
                Ok(V::List(Rc::new(self.w.rec()?.pools.iter().map(|p| s(p)).collect())))
            }
            "xattr?" => {
                Self::arity(name, a, 1, 1)?;
                let n = Self::string(&a[0], name)?;
                Ok(V::Bool(self.w.rec()?.xattrs.iter().any(|(k, _)| *k == *n)))
            }
            "xattr-ref-string" => {
                Self::arity(name, a, 1, 1)?;
                let n = Self::string(&a[0], name)?;
                Ok(match self.w.rec()?.xattrs.iter().find(|(k, _)| *k == *n) {
                    Some((_, v)) => s(v),
                    None => V::Bool(false),
                })
            }
            "xattr-match?" => {
                Self::arity(name, a, 2, 2)?;
                let n = Self::string(&a[0], name)?;
                let v = Self::string(&a[1], name)?;
                Ok(V::Bool(self.w.rec()?.xattrs.iter().any(|(k, w)| fnmatch(&n, k, false) && fnmatch(&v, w, false))))
            }
            "call-with-name" | "call-with-relative-path" | "call-with-absolute-path" => {
                Self::arity(name, a, 1, 1)?;
                let arg = match name {
                    "call-with-name" => self.w.rec()?.name().to_string(),
                    "call-with-relative-path" => self.w.rec()?.relpath.clone(),
                    _ => self.w.rec()?.abspath(),
                };
                let f = a[0].clone();
                self.call_tracked(&f, s(&arg))
            }
            "dirname" => {
                Self::arity(name, a, 1, 1)?;
                let p = Self::string(&a[0], name)?;
                Ok(s(&match p.rfind('/') {
                    Some(0) => "/".to_string(),
                    Some(i) => p[..i].to_string(),
                    None => ".".to_string(),
                }))
            }
            "basename" => {
                Self::arity(name, a, 1, 1)?;
                let p = Self::string(&a[0], name)?;
                Ok(s(match p.rfind('/') {
                    Some(i) => &p[i + 1..],
                    None => &p,
                }))
            }
            "streq?" | "streq-ci?" => {
                Self::arity(name, a, 2, 2)?;
                Ok(V::Bool(streq(&Self::string(&a[0], name)?, &Self::string(&a[1], name)?, name == "streq-ci?")))
            }
            "fnmatch?" | "fnmatch-ci?" => {
                Self::arity(name, a, 2, 2)?;
                Ok(V::Bool(fnmatch(&Self::string(&a[0], name)?, &Self::string(&a[1], name)?, name == "fnmatch-ci?")))
            }
            "round-up-power-of-2" => {
                Self::arity(name, a, 2, 2)?;
                let x = Self::int(&a[0], name)?;
                let m = Self::int(&a[1], name)?;
                if m <= 0 || (m & (m - 1)) != 0 {
                    return Err(EvalError::Other(format!("round-up-power-of-2: {} is not a power of two", m)));
                }
                Ok(V::Int(((x + m - 1) / m) * m))
            }
            "make-printer" => {
                Self::arity(name, a, 3, 3)?;
                let port = match &a[0] {
                    V::Port(p) => *p,
                    other => return Err(EvalError::Type(format!("make-printer: not a port: {}", display_string(other)))),
                };
                let mutex = match &a[1] {
                    V::Mutex(m) => *m,
                    other => return Err(EvalError::Type(format!("make-printer: not a mutex: {}", display_string(other)))),
                };
                let delim = match &a[2] {
                    V::Bool(false) => None,
                    V::Char(c) => Some(*c),
                    other => return Err(EvalError::Type(format!("make-printer: bad delimiter: {}", display_string(other)))),
                };
                Ok(V::Printer(Rc::new(PrinterObj { port, mutex, delim })))
            }
            "print-relative-path" | "print-absolute-path" | "print-file-fid" => {
                Self::arity(name, a, 0, 0)?;
                let text = match name {
                    "print-relative-path" => self.w.rec()?.relpath.clone(),
                    "print-absolute-path" => self.w.rec()?.abspath(),
                    _ => self.w.rec()?.fid.clone(),
                };
                self.w.lock(RUNTIME_LOCK)?;
                let r = self.w.write(0, &format!("{}\n", text));
                self.w.unlock(RUNTIME_LOCK)?;
                r?;
                Ok(V::Bool(true))
            }
            "lipe-scan-break" => {
                Self::arity(name, a, 0, 1)?;
                self.w.rec()?;
                self.w.stop = true;
                Ok(V::Bool(true))
            }
            "lipe-getopt-client-mount-path" => {
                Self::arity(name, a, 0, 0)?;
                Ok(V::Sentinel("getopt-client-mount-path"))
            }
            "lipe-getopt-required-attrs" => {
                Self::arity(name, a, 0, 0)?;
                Ok(V::Sentinel("getopt-required-attrs"))
            }
            "lipe-getopt-thread-count" => {
                Self::arity(name, a, 0, 0)?;
                Ok(V::Sentinel("getopt-thread-count"))
            }
            "lipe-scan-client-mount-path" => {
                Self::arity(name, a, 0, 0)?;
                Ok(s(&self.w.mount.clone()))
            }
            "empty" => {
                Self::arity(name, a, 0, 0)?;
                Ok(V::Bool(self.w.rec()?.empty))
            }
            "readable" => {
                Self::arity(name, a, 0, 0)?;
                Ok(V::Bool(self.w.rec()?.readable))
            }
            "writable" => {
                Self::arity(name, a, 0, 0)?;
                Ok(V::Bool(self.w.rec()?.writable))
            }
            "executable" => {
                Self::arity(name, a, 0, 0)?;
                Ok(V::Bool(self.w.rec()?.executable))
            }
            "zero?" | "positive?" | "negative?" | "even?" | "odd?" => {
                Self::arity(name, a, 1, 1)?;
                let (n, d) = Self::num(&a[0], name)?;
                Ok(V::Bool(match name {
                    "zero?" => n == 0,
                    "positive?" => n > 0,
                    "negative?" => n < 0,
                    "even?" => d == 1 && n % 2 == 0,
                    _ => d == 1 && n % 2 != 0,
                }))
            }
            "1+" | "1-" => {
                Self::arity(name, a, 1, 1)?;
                let i = Self::int(&a[0], name)?;
                Ok(V::Int(if name == "1+" { i + 1 } else { i - 1 }))
            }
            "min" | "max" | "abs" => {
                if a.is_empty() {
                    return Err(EvalError::Arity(name.into()));
                }
                let mut acc = Self::int(&a[0], name)?;
                if name == "abs" {
                    Self::arity(name, a, 1, 1)?;
                    return Ok(V::Int(acc.abs()));
                }
                for v in &a[1..] {
                    let i = Self::int(v, name)?;
                    acc = if name == "min" { acc.min(i) } else { acc.max(i) };
                }
                Ok(V::Int(acc))
            }
            "eq?" | "eqv?" => {
                Self::arity(name, a, 2, 2)?;
                Ok(V::Bool(match (&a[0], &a[1]) {
                    (V::Str(x), V::Str(y)) => Rc::ptr_eq(x, y),
                    (V::List(x), V::List(y)) => Rc::ptr_eq(x, y) || (x.is_empty() && y.is_empty()),
                    (V::Lambda(x), V::Lambda(y)) => Rc::ptr_eq(x, y),
                    // eq? compares fixnums by value; integers beyond Guile's fixnum range (62 bits) are heap
                    // objects, and two separately obtained ones are not eq? (eqv? / = compare them by value)
                    (V::Int(x), V::Int(y)) if name == "eq?" && (*x >= (1i128 << 61) || *x < -(1i128 << 61)) => {
                        let _ = y;
                        false
                    }
                    (V::Rat(_, _), V::Rat(_, _)) if name == "eq?" => false,
                    (x, y) => equal(x, y),
                }))
            }
            "null?" | "pair?" | "list?" | "string?" | "number?" | "integer?" | "boolean?" | "char?" | "procedure?" => {
                Self::arity(name, a, 1, 1)?;
                Ok(V::Bool(match (name, &a[0]) {
                    ("null?", V::List(l)) => l.is_empty(),
                    ("pair?", V::List(l)) => !l.is_empty(),
                    ("list?", V::List(_)) => true,
                    ("string?", V::Str(_)) => true,
                    ("number?", V::Int(_) | V::Rat(_, _)) => true,
                    ("integer?", V::Int(_)) => true,
                    ("boolean?", V::Bool(_)) => true,
                    ("char?", V::Char(_)) => true,
                    ("procedure?", V::Lambda(_) | V::Prim(_) | V::Printer(_)) => true,
                    _ => false,
                }))
            }
            "car" | "cdr" | "cadr" | "length" | "reverse" => {
                Self::arity(name, a, 1, 1)?;
                let l = match &a[0] {
                    V::List(l) => l.clone(),
                    other => return Err(EvalError::Type(format!("{}: not a list: {}", name, display_string(other)))),
                };
                match name {
                    "car" => l.first().cloned().ok_or_else(|| EvalError::Type("car of ()".into())),
                    "cadr" => l.get(1).cloned().ok_or_else(|| EvalError::Type("cadr of a short list".into())),
                    "cdr" => {
                        if l.is_empty() {
                            Err(EvalError::Type("cdr of ()".into()))
                        } else {
                            Ok(V::List(Rc::new(l[1..].to_vec())))
                        }
                    }
                    "length" => Ok(V::Int(l.len() as i128)),
                    _ => Ok(V::List(Rc::new(l.iter().rev().cloned().collect()))),
                }
            }
            "cons" => {
                Self::arity(name, a, 2, 2)?;
                match &a[1] {
                    V::List(l) => {
                        let mut v = vec![a[0].clone()];
                        v.extend(l.iter().cloned());
                        Ok(V::List(Rc::new(v)))
                    }
                    _ => Err(EvalError::Unmodelled("cons (improper list)".into())),
                }
            }
            "append" => {
                let mut v = vec![];
                for x in a {
                    match x {
                        V::List(l) => v.extend(l.iter().cloned()),
                        other => return Err(EvalError::Type(format!("append: not a list: {}", display_string(other)))),
                    }
                }
                Ok(V::List(Rc::new(v)))
            }
            "list-ref" => {
                Self::arity(name, a, 2, 2)?;
                let i = Self::int(&a[1], name)?;
                match &a[0] {
                    V::List(l) if i >= 0 && (i as usize) < l.len() => Ok(l[i as usize].clone()),
                    _ => Err(EvalError::Type("list-ref: out of range".into())),
                }
            }
            "memq" | "memv" => {
                Self::arity(name, a, 2, 2)?;
                match &a[1] {
                    V::List(l) => {
                        for (i, x) in l.iter().enumerate() {
                            if equal(&a[0], x) && !matches!(x, V::Str(_)) {
                                return Ok(V::List(Rc::new(l[i..].to_vec())));
                            }
                        }
                        Ok(V::Bool(false))
                    }
                    other => Err(EvalError::Type(format!("{}: not a list: {}", name, display_string(other)))),
                }
            }
            "assoc" | "assq" | "assv" => {
                Self::arity(name, a, 2, 2)?;
                match &a[1] {
                    V::List(l) => {
                        for x in l.iter() {
                            if let V::List(p) = x {
                                if let Some(k) = p.first() {
                                    if equal(&a[0], k) {
                                        return Ok(x.clone());
                                    }
                                }
                            }
                        }
                        Ok(V::Bool(false))
                    }
                    other => Err(EvalError::Type(format!("{}: not a list: {}", name, display_string(other)))),
                }
            }
            "string-length" | "string-upcase" | "string-downcase" | "string-null?" => {
                Self::arity(name, a, 1, 1)?;
                let st = Self::string(&a[0], name)?;
                Ok(match name {
                    "string-length" => V::Int(st.chars().count() as i128),
                    "string-upcase" => s(&st.to_uppercase()),
                    "string-downcase" => s(&st.to_lowercase()),
                    _ => V::Bool(st.is_empty()),
                })
            }
            "string-prefix?" | "string-suffix?" | "string-contains" | "string<?" => {
                Self::arity(name, a, 2, 2)?;
                let x = Self::string(&a[0], name)?;
                let y = Self::string(&a[1], name)?;
                Ok(match name {
                    "string-prefix?" => V::Bool(y.starts_with(x.as_str())),
                    "string-suffix?" => V::Bool(y.ends_with(x.as_str())),
                    "string<?" => V::Bool(*x < *y),
                    _ => match x.find(y.as_str()) {
                        Some(b) => V::Int(x[..b].chars().count() as i128),
                        None => V::Bool(false),
                    },
                })
            }
            "substring" => {
                Self::arity(name, a, 2, 3)?;
                let st = Self::string(&a[0], name)?;
                let cs: Vec<char> = st.chars().collect();
                let from = Self::int(&a[1], name)?;
                let to = if a.len() == 3 { Self::int(&a[2], name)? } else { cs.len() as i128 };
                if from < 0 || to < from || to as usize > cs.len() {
                    return Err(EvalError::Type("substring: out of range".into()));
                }
                Ok(s(&cs[from as usize..to as usize].iter().collect::<String>()))
            }
            "string-ref" => {
                Self::arity(name, a, 2, 2)?;
                let st = Self::string(&a[0], name)?;
                let i = Self::int(&a[1], name)?;
                st.chars().nth(i.max(0) as usize).map(V::Char).ok_or_else(|| EvalError::Type("string-ref: out of range".into()))
            }
            "char=?" => {
                Self::arity(name, a, 2, 2)?;
                match (&a[0], &a[1]) {
                    (V::Char(x), V::Char(y)) => Ok(V::Bool(x == y)),
                    _ => Err(EvalError::Type("char=?: not characters".into())),
                }
            }
            "string->number" => {
                Self::arity(name, a, 1, 2)?;
                let st = Self::string(&a[0], name)?;
                Ok(st.parse::<i128>().map(V::Int).unwrap_or(V::Bool(false)))
            }
            "string-join" => {
                Self::arity(name, a, 1, 2)?;
                let sep = if a.len() == 2 { Self::string(&a[1], name)?.to_string() } else { " ".to_string() };
                match &a[0] {
                    V::List(l) => {
                        let mut parts = vec![];
                        for x in l.iter() {
                            parts.push(Self::string(x, name)?.to_string());
                        }
                        Ok(s(&parts.join(&sep)))
                    }
                    other => Err(EvalError::Type(format!("string-join: not a list: {}", display_string(other)))),
                }
            }
            "expt" | "ash" | "logxor" => {
                Self::arity(name, a, 2, 2)?;
                let x = Self::int(&a[0], name)?;
                let y = Self::int(&a[1], name)?;
                Ok(V::Int(match name {
                    "expt" => {
                        if !(0..=126).contains(&y) {
                            return Err(Self::ovf(name));
                        }
                        x.checked_pow(y as u32).ok_or_else(|| Self::ovf(name))?
                    }
                    "ash" => {
                        if y >= 0 {
                            if y > 100 {
                                return Err(Self::ovf(name));
                            }
                            x.checked_shl(y as u32).ok_or_else(|| Self::ovf(name))?
                        } else {
                            x >> (-y).min(127)
                        }
                    }
                    _ => x ^ y,
                }))
            }
            "lognot" => {
                Self::arity(name, a, 1, 1)?;
                Ok(V::Int(!Self::int(&a[0], name)?))
            }
            "logtest" => {
                Self::arity(name, a, 2, 2)?;
                Ok(V::Bool(Self::int(&a[0], name)? & Self::int(&a[1], name)? != 0))
            }
            "logbit?" => {
                Self::arity(name, a, 2, 2)?;
                let i = Self::int(&a[0], name)?;
                let n = Self::int(&a[1], name)?;
                if !(0..=126).contains(&i) {
                    return Err(Self::ovf(name));
                }
                Ok(V::Bool((n >> i) & 1 == 1))
            }
            "logcount" | "integer-length" => {
                Self::arity(name, a, 1, 1)?;
                let n = Self::int(&a[0], name)?;
                Ok(V::Int(if name == "logcount" { (if n >= 0 { n } else { !n }).count_ones() as i128 } else { 128 - (if n >= 0 { n } else { !n }).leading_zeros() as i128 }))
            }
            "identity" => {
                Self::arity(name, a, 1, 1)?;
                Ok(a[0].clone())
            }
            "apply" => {
                if a.len() < 2 {
                    return Err(EvalError::Arity("apply".into()));
                }
                let mut args2: Vec<V> = a[1..a.len() - 1].to_vec();
                match &a[a.len() - 1] {
                    V::List(l) => args2.extend(l.iter().cloned()),
                    other => return Err(EvalError::Type(format!("apply: last argument is not a list: {}", display_string(other)))),
                }
                let f = a[0].clone();
                self.apply(&f, args2)
            }
            "map" | "for-each" => {
                Self::arity(name, a, 2, 2)?;
                let f = a[0].clone();
                let l = match &a[1] {
                    V::List(l) => l.clone(),
                    other => return Err(EvalError::Type(format!("{}: not a list: {}", name, display_string(other)))),
                };
                let mut out = vec![];
                for x in l.iter() {
                    out.push(self.apply(&f, vec![x.clone()])?);
                }
                Ok(if name == "map" { V::List(Rc::new(out)) } else { V::Unspec })
            }
            "const" | "number->string/pad" => Err(EvalError::Unmodelled(name.to_string())),
            "lipe-scan" => self.lipe_scan(a),
            other => Err(EvalError::Unbound(other.to_string())),
        }
    }

    fn lipe_scan(&mut self, a: &[V]) -> R {
        Self::arity("lipe-scan", a, 5, 5)?;
        if self.w.scan.is_some() {
            return Err(EvalError::Other("lipe-scan called twice".into()));
        }
        let device = match &a[0] {
            V::Str(d) => d.to_string(),
            other => return Err(EvalError::Type(format!("lipe-scan: device is not a string: {}", display_string(other)))),
        };
        let mount_is_getopt = matches!(&a[1], V::Sentinel("getopt-client-mount-path"));
        let attrs_is_getopt = matches!(&a[3], V::Sentinel("getopt-required-attrs"));
        let threads = match &a[4] {
            V::Int(i) => Some(*i),
            V::Sentinel("getopt-thread-count") => None,
            other => return Err(EvalError::Type(format!("lipe-scan: bad thread count {}", display_string(other)))),
        };
        match &a[2] {
            V::Lambda(l) if l.params.is_empty() => {}
            _ => return Err(EvalError::Type("lipe-scan: callback is not a thunk".into())),
        }
        self.w.scan = Some(ScanCall { device, mount_is_getopt, attrs_is_getopt, threads });
        let thunk = a[2].clone();
        let n = self.w.records.len();
        for i in 0..n {
            self.w.cur = Some(i);
            self.w.thread = if self.w.defer { self.w.assign.get(i).copied().unwrap_or(0) } else { 0 };
            self.w.cur_writes.clear();
            self.w.stop = false;
            let step_start = self.w.steps.len();
            self.w.in_thunk = true;
            let saved_depth = self.w.call_depth_user;
            self.w.call_depth_user = 0;
            let r = self.apply(&thunk, vec![]);
            self.w.call_depth_user = saved_depth;
            self.w.in_thunk = false;
            let v = match r {
                Ok(v) => v,
                Err(e) => {
                    self.w.cur = None;
                    self.w.failed_record = Some(i);
                    return Err(e);
                }
            };
            let run = RecRun {
                truth: truthy(&v),
                writes: std::mem::take(&mut self.w.cur_writes),
                stop: self.w.stop,
                steps: self.w.steps[step_start..].to_vec(),
            };
            let stop = run.stop;
            self.w.runs.push(run);
            if stop && self.w.break_on_stop {
                break;
            }
        }
        self.w.cur = None;
        self.w.thread = 0;
        self.w.scan_returned = true;
        Ok(V::Unspec)
    }

    fn format(&mut self, a: &[V]) -> R {
        if a.len() < 2 {
            return Err(EvalError::Arity("format".into()));
        }
        let tmpl = Self::string(&a[1], "format")?;
        let mut out = String::new();
        let mut argi = 2;
        let cs: Vec<char> = tmpl.chars().collect();
        let mut i = 0;
        while i < cs.len() {
            if cs[i] != '~' {
                out.push(cs[i]);
                i += 1;
                continue;
            }
            i += 1;
            if i >= cs.len() {
                return Err(EvalError::Format("template ends in ~".into()));
            }
            let d = cs[i];
            i += 1;
            match d {
                '~' => out.push('~'),
                '%' => out.push('\n'),
                'a' | 'A' | 's' | 'S' | 'd' | 'D' | 'o' | 'O' | 'f' | 'F' | 'x' | 'X' => {
                    if argi >= a.len() {
                        return Err(EvalError::Format(format!("missing argument for ~{}", d)));
                    }
                    let v = &a[argi];
                    argi += 1;
                    match d.to_ascii_lowercase() {
                        'a' => out.push_str(&display_string(v)),
                        's' => match v {
                            V::Str(st) => out.push_str(&format!("{:?}", st)),
                            other => out.push_str(&display_string(other)),
                        },
                        'd' => match v {
                            V::Int(n) => out.push_str(&n.to_string()),
                            other => out.push_str(&display_string(other)),
                        },
                        'o' => match v {
                            V::Int(n) => out.push_str(&format!("{:o}", n)),
                            other => out.push_str(&display_string(other)),
                        },
                        'x' => match v {
                            V::Int(n) => out.push_str(&format!("{:x}", n)),
                            other => out.push_str(&display_string(other)),
                        },
                        _ => match v {
                            V::Int(n) => out.push_str(&format!("{}.0", n)),
                            V::Rat(n, dd) => out.push_str(&format!("<real:{}/{}>", n, dd)),
                            V::Str(_) => return Err(EvalError::Format("~f applied to a string".into())),
                            other => out.push_str(&display_string(other)),
                        },
                    }
                }
                other => return Err(EvalError::Format(format!("unsupported directive ~{}", other))),
            }
        }
        if argi != a.len() {
            return Err(EvalError::Format(format!("{} superfluous arguments", a.len() - argi)));
        }
        match &a[0] {
            V::Bool(false) => Ok(s(&out)),
            V::Bool(true) => {
                self.w.write(0, &out)?;
                Ok(V::Unspec)
            }
            V::Port(p) => {
                self.w.write(*p, &out)?;
                Ok(V::Unspec)
            }
            other => Err(EvalError::Type(format!("format: bad destination {}", display_string(other)))),
        }
    }
}

fn quote(x: &Sx) -> V {
    match x {
        Sx::Int(i) => V::Int(*i),
        Sx::Str(st) => s(st),
        Sx::Char(c) => V::Char(*c),
        Sx::Bool(b) => V::Bool(*b),
        Sx::Sym(n) => V::Str(Rc::new(format!("'{}", n))),
        Sx::List(l) => V::List(Rc::new(l.iter().map(quote).collect())),
    }
}

/// Outcome of running a policy on one record, in the vocabulary shared with the reference evaluator.
#[derive(Clone, Debug, PartialEq)]
pub struct Outcome {
    pub truth: bool,
    pub outs: Vec<(Dest, String)>,
    pub stop: bool,
}

pub fn merge_outs(outs: Vec<(Dest, String)>) -> Vec<(Dest, String)> {
    let mut res: Vec<(Dest, String)> = vec![];
    for (d, s) in outs {
        if s.is_empty() {
            continue;
        }
        match res.last_mut() {
            Some((ld, ls)) if *ld == d => ls.push_str(&s),
            _ => res.push((d, s)),
        }
    }
    res
}

#[cfg(test)]
mod tests {
    use super::*;
    use crate::sexp::read_all;

    fn ev(src: &str) -> Result<String, EvalError> {
        let forms = read_all(src).unwrap();
        let mut it = Interp::new(vec![]);
        it.w.modules.push("(ice-9 threads)".into());
        let mut last = V::Unspec;
        let env = Env::empty();
        for f in &forms {
            last = it.eval(f, &env)?;
        }
        Ok(display_string(&last))
    }

    #[test]
    fn core_forms() {
        assert_eq!(ev("(let* ((a 1) (b (+ a 1))) (* a b 3))").unwrap(), "6");
        assert_eq!(ev("(cond ((= 1 2) 'no) ((member 2 '(1 2 3)) => car) (else 9))").unwrap(), "2");
        assert_eq!(ev("(case (+ 1 2) ((1 2) \"low\") ((3 4) \"mid\") (else \"hi\"))").unwrap(), "mid");
        assert_eq!(ev("(let loop ((i 0) (acc 1)) (if (< i 5) (loop (1+ i) (* acc 2)) acc))").unwrap(), "32");
        assert_eq!(ev("(letrec ((ev? (lambda (n) (if (zero? n) #t (od? (1- n))))) (od? (lambda (n) (if (zero? n) #f (ev? (1- n)))))) (ev? 10))").unwrap(), "#t");
        assert_eq!(ev("((lambda (x) (define y (* x 2)) (define (f z) (+ z y)) (f 1)) 5)").unwrap(), "11");
        assert_eq!(ev("(map (lambda (x) (* x x)) (list 1 2 3))").unwrap(), "(1 4 9)");
        assert_eq!(ev("(string-join (map number->string '(1 2 3)) \",\")").unwrap(), "1,2,3");
        assert_eq!(ev("(format #f \"~a-~d-~o~%\" \"x\" 10 8)").unwrap(), "x-10-10\n");
        assert_eq!(ev("(quotient 7 2)").unwrap(), "3");
        assert_eq!(ev("(and 1 2 #f 3)").unwrap(), "#f");
        assert_eq!(ev("(or #f #f)").unwrap(), "#f");
        assert!(matches!(ev("(set! x 1)"), Err(EvalError::Unmodelled(_))));
        assert!(matches!(ev("(UNIMPLEMENTED)"), Err(EvalError::Unbound(_))));
        assert!(matches!(ev("(format #f \"~q\" 1)"), Err(EvalError::Format(_))));
        assert!(matches!(ev("(format #f \"~a\")"), Err(EvalError::Format(_))));
        assert!(matches!(ev("(format #f \"x\" 1)"), Err(EvalError::Format(_))));
        assert!(matches!(ev("(let ((m (make-mutex))) (with-mutex m (with-mutex m 1)))"), Err(EvalError::Deadlock(_))));
    }
}
