//! Model Guile/LiPE runtime: evaluates the emitted policy text (as read by `sexp`) over file records.
//! Only what a generated policy may legally use is defined; everything else is an error, as it
//! would be in Guile (unbound variable, wrong arity, wrong type).

use crate::fnmatch::{fnmatch, streq};
use crate::rec::FileRecord;
use crate::sexp::Sx;
use std::collections::HashSet;
use std::rc::Rc;

#[derive(Clone, Debug, PartialEq)]
pub enum Dest {
    Stdout,
    File(String),
}

#[derive(Clone)]
pub enum V {
    Unspec,
    Bool(bool),
    Int(i128),
    Rat(i128, i128),
    Str(Rc<String>),
    Char(char),
    List(Rc<Vec<V>>),
    Lambda(Rc<Lambda>),
    Prim(&'static str),
    Printer(Rc<PrinterObj>),
    Port(usize),
    Mutex(usize),
    Tm(i128),
    Sentinel(&'static str),
}

pub struct Lambda {
    pub params: Vec<String>,
    pub body: Vec<Sx>,
    pub env: Env,
}

pub struct PrinterObj {
    pub port: usize,
    pub mutex: usize,
    pub delim: Option<char>,
}

#[derive(Clone, Debug, PartialEq)]
pub enum EvalError {
    Unbound(String),
    Arity(String),
    Type(String),
    Format(String),
    Deadlock(String),
    Port(String),
    Other(String),
}

impl std::fmt::Display for EvalError {
    fn fmt(&self, f: &mut std::fmt::Formatter) -> std::fmt::Result {
        match self {
            EvalError::Unbound(s) => write!(f, "Unbound variable: {}", s),
            EvalError::Arity(s) => write!(f, "Wrong number of arguments: {}", s),
            EvalError::Type(s) => write!(f, "Wrong type argument: {}", s),
            EvalError::Format(s) => write!(f, "format: {}", s),
            EvalError::Deadlock(s) => write!(f, "deadlock: {}", s),
            EvalError::Port(s) => write!(f, "port: {}", s),
            EvalError::Other(s) => write!(f, "{}", s),
        }
    }
}

type R = Result<V, EvalError>;

#[derive(Clone)]
pub struct Env(Option<Rc<Frame>>);
pub struct Frame {
    name: String,
    val: V,
    parent: Env,
}

impl Env {
    pub fn empty() -> Env {
        Env(None)
    }
    pub fn bind(&self, name: &str, val: V) -> Env {
        Env(Some(Rc::new(Frame { name: name.to_string(), val, parent: self.clone() })))
    }
    pub fn get(&self, name: &str) -> Option<V> {
        let mut cur = &self.0;
        while let Some(f) = cur {
            if f.name == name {
                return Some(f.val.clone());
            }
            cur = &f.parent.0;
        }
        None
    }
}

#[derive(Clone, Debug, PartialEq)]
pub enum StepKind {
    Lock(usize),
    Unlock(usize),
    Write(usize, String),
}

#[derive(Clone, Debug, PartialEq)]
pub struct Step {
    pub thread: usize,
    pub kind: StepKind,
}

pub struct Port {
    pub dest: Dest,
    pub data: String,
    pub closed: bool,
}

/// What one thunk call (one record) did.
#[derive(Clone, Debug)]
pub struct RecRun {
    pub truth: bool,
    pub writes: Vec<(usize, String)>,
    pub stop: bool,
    pub steps: Vec<Step>,
}

#[derive(Clone, Debug)]
pub struct ScanCall {
    pub device: String,
    pub mount_is_getopt: bool,
    pub attrs_is_getopt: bool,
    pub threads: Option<i128>, // None = (lipe-getopt-thread-count) sentinel
}

pub const RUNTIME_LOCK: usize = 0;

pub struct World {
    pub ports: Vec<Port>,
    pub mutex_owner: Vec<Option<usize>>,
    pub records: Vec<FileRecord>,
    pub cur: Option<usize>,
    pub stop: bool,
    pub thread: usize,
    /// When true, lock/write/unlock steps are only recorded (C16) and applied later by a scheduler.
    pub defer: bool,
    /// honour lipe-scan-break by ending the scan (off by default so every record is compared)
    pub break_on_stop: bool,
    /// thread assignment for deferred mode: records[i] runs on thread assign[i]
    pub assign: Vec<usize>,
    pub steps: Vec<Step>,
    pub cur_writes: Vec<(usize, String)>,
    pub runs: Vec<RecRun>,
    pub scan: Option<ScanCall>,
    pub modules: Vec<String>,
    pub mount: String,
    pub matcher_objs: HashSet<usize>,
    pub printer_objs: HashSet<usize>,
    pub wrote_in_call: bool,
    pub call_depth_user: usize,
    pub in_thunk: bool,
    pub eval_count: u64,
    pub after_scan_closed: Vec<usize>,
    pub scan_returned: bool,
    pub writes_after_scan: usize,
}

impl World {
    pub fn new(records: Vec<FileRecord>) -> World {
        let mount = records.first().map(|r| r.mount.clone()).unwrap_or_else(|| "/mnt/lustre".to_string());
        World {
            ports: vec![Port { dest: Dest::Stdout, data: String::new(), closed: false }],
            mutex_owner: vec![None], // index 0 = the runtime's own stdout lock
            records,
            cur: None,
            stop: false,
            thread: 0,
            defer: false,
            break_on_stop: false,
            assign: vec![],
            steps: vec![],
            cur_writes: vec![],
            runs: vec![],
            scan: None,
            modules: vec![],
            mount,
            matcher_objs: HashSet::new(),
            printer_objs: HashSet::new(),
            wrote_in_call: false,
            call_depth_user: 0,
            in_thunk: false,
            eval_count: 0,
            after_scan_closed: vec![],
            scan_returned: false,
            writes_after_scan: 0,
        }
    }

    fn rec(&self) -> Result<&FileRecord, EvalError> {
        match self.cur {
            Some(i) => Ok(&self.records[i]),
            None => Err(EvalError::Other("file accessor used outside of a scan callback".into())),
        }
    }

    fn lock(&mut self, m: usize) -> Result<(), EvalError> {
        self.steps.push(Step { thread: self.thread, kind: StepKind::Lock(m) });
        if self.defer {
            return Ok(());
        }
        if m >= self.mutex_owner.len() {
            return Err(EvalError::Other("bad mutex".into()));
        }
        if self.mutex_owner[m].is_some() {
            return Err(EvalError::Deadlock(format!("mutex {} locked while already held (mutexes are not recursive)", m)));
        }
        self.mutex_owner[m] = Some(self.thread);
        Ok(())
    }

    fn unlock(&mut self, m: usize) -> Result<(), EvalError> {
        self.steps.push(Step { thread: self.thread, kind: StepKind::Unlock(m) });
        if self.defer {
            return Ok(());
        }
        if self.mutex_owner[m] != Some(self.thread) {
            return Err(EvalError::Other("unlock of a mutex not held".into()));
        }
        self.mutex_owner[m] = None;
        Ok(())
    }

    fn write(&mut self, p: usize, s: &str) -> Result<(), EvalError> {
        if p >= self.ports.len() {
            return Err(EvalError::Port("bad port".into()));
        }
        if self.ports[p].closed {
            return Err(EvalError::Port("write to a closed port".into()));
        }
        self.wrote_in_call = true;
        if self.scan_returned {
            self.writes_after_scan += 1;
        }
        self.steps.push(Step { thread: self.thread, kind: StepKind::Write(p, s.to_string()) });
        self.cur_writes.push((p, s.to_string()));
        if !self.defer {
            self.ports[p].data.push_str(s);
        }
        Ok(())
    }
}

pub struct Interp {
    pub w: World,
}

fn truthy(v: &V) -> bool {
    !matches!(v, V::Bool(false))
}

fn s(v: &str) -> V {
    V::Str(Rc::new(v.to_string()))
}

pub fn display_string(v: &V) -> String {
    match v {
        V::Unspec => "#<unspecified>".into(),
        V::Bool(true) => "#t".into(),
        V::Bool(false) => "#f".into(),
        V::Int(i) => i.to_string(),
        V::Rat(n, d) => format!("{}/{}", n, d),
        V::Str(s) => s.to_string(),
        V::Char(c) => c.to_string(),
        V::List(l) => format!("({})", l.iter().map(display_string).collect::<Vec<_>>().join(" ")),
        V::Lambda(_) | V::Prim(_) | V::Printer(_) => "#<procedure>".into(),
        V::Port(p) => format!("#<port {}>", p),
        V::Mutex(m) => format!("#<mutex {}>", m),
        V::Tm(t) => format!("#<tm {}>", t),
        V::Sentinel(s) => format!("#<{}>", s),
    }
}

fn gcd(a: i128, b: i128) -> i128 {
    if b == 0 {
        a.abs()
    } else {
        gcd(b, a % b)
    }
}

fn equal(a: &V, b: &V) -> bool {
    match (a, b) {
        (V::Bool(x), V::Bool(y)) => x == y,
        (V::Int(x), V::Int(y)) => x == y,
        (V::Rat(a, b), V::Rat(c, d)) => a == c && b == d,
        (V::Str(x), V::Str(y)) => x == y,
        (V::Char(x), V::Char(y)) => x == y,
        (V::List(x), V::List(y)) => x.len() == y.len() && x.iter().zip(y.iter()).all(|(p, q)| equal(p, q)),
        (V::Port(x), V::Port(y)) => x == y,
        (V::Mutex(x), V::Mutex(y)) => x == y,
        (V::Unspec, V::Unspec) => true,
        _ => false,
    }
}

const PRIMS: &[&str] = &[
    "=", "<", ">", "<=", ">=", "+", "-", "*", "/", "quotient", "remainder", "modulo", "logand", "logior", "not", "member", "equal?", "string=?",
    "format", "display", "newline", "string", "string-append", "number->string", "make-mutex", "current-output-port", "open-file", "open-output-file",
    "close-port", "strftime", "localtime", "dynamic-wind", "uid", "gid", "ino", "nlink", "size", "blocks", "mode", "atime", "ctime", "mtime",
    "projid", "file-fid", "name", "relative-path", "absolute-path", "user", "group", "type", "type->char", "lov-pools", "lov-stripe-count",
    "lov-stripe-size", "lov-mirror-count", "xattr?", "xattr-ref-string", "xattr-match?", "call-with-name", "call-with-relative-path",
    "call-with-absolute-path", "dirname", "basename", "streq?", "streq-ci?", "fnmatch?", "fnmatch-ci?", "round-up-power-of-2", "make-printer",
    "print-relative-path", "print-absolute-path", "print-file-fid", "lipe-scan", "lipe-scan-break", "lipe-getopt-client-mount-path",
    "lipe-getopt-required-attrs", "lipe-getopt-thread-count", "lipe-scan-client-mount-path", "empty", "readable", "writable", "executable",
    "lock-mutex", "unlock-mutex", "list", "force-output", "put-u8", "put-char", "put-string", "write-char", "write-string", "integer->char", "char->integer",
    "simple-format",
];

fn prim_name(name: &str) -> Option<&'static str> {
    PRIMS.iter().find(|p| **p == name).copied()
}

impl Interp {
    pub fn new(records: Vec<FileRecord>) -> Interp {
        Interp { w: World::new(records) }
    }

    /// Run a whole program text (already read). Returns after the top-level forms completed.
    pub fn run_program(&mut self, forms: &[Sx]) -> Result<(), EvalError> {
        let env = Env::empty();
        for f in forms {
            if f.head() == Some("use-modules") {
                for m in &f.list().unwrap()[1..] {
                    self.w.modules.push(m.show());
                }
                continue;
            }
            self.eval(f, &env)?;
        }
        Ok(())
    }

    pub fn eval(&mut self, x: &Sx, env: &Env) -> R {
        self.w.eval_count += 1;
        if self.w.eval_count > 5_000_000 {
            return Err(EvalError::Other("model step budget exceeded".into()));
        }
        match x {
            Sx::Int(i) => Ok(V::Int(*i)),
            Sx::Str(st) => Ok(s(st)),
            Sx::Char(c) => Ok(V::Char(*c)),
            Sx::Bool(b) => Ok(V::Bool(*b)),
            Sx::Sym(name) => {
                if let Some(v) = env.get(name) {
                    return Ok(v);
                }
                match prim_name(name) {
                    Some(p) => Ok(V::Prim(p)),
                    None => Err(EvalError::Unbound(name.clone())),
                }
            }
            Sx::List(items) => {
                if items.is_empty() {
                    return Err(EvalError::Other("empty combination ()".into()));
                }
                if let Sx::Sym(h) = &items[0] {
                    if env.get(h).is_none() {
                        match h.as_str() {
                            "let*" | "let" | "letrec" => return self.eval_let(h, items, env),
                            "lambda" => {
                                if items.len() < 3 {
                                    return Err(EvalError::Other("bad lambda".into()));
                                }
                                let params = match &items[1] {
                                    Sx::List(ps) => {
                                        let mut v = vec![];
                                        for p in ps {
                                            match p {
                                                Sx::Sym(n) => v.push(n.clone()),
                                                _ => return Err(EvalError::Other("bad lambda parameter".into())),
                                            }
                                        }
                                        v
                                    }
                                    _ => return Err(EvalError::Other("lambda with non-list formals not supported by the model".into())),
                                };
                                return Ok(V::Lambda(Rc::new(Lambda { params, body: items[2..].to_vec(), env: env.clone() })));
                            }
                            "and" => {
                                let mut last = V::Bool(true);
                                for e in &items[1..] {
                                    last = self.eval(e, env)?;
                                    if !truthy(&last) {
                                        return Ok(last);
                                    }
                                }
                                return Ok(last);
                            }
                            "or" => {
                                for e in &items[1..] {
                                    let v = self.eval(e, env)?;
                                    if truthy(&v) {
                                        return Ok(v);
                                    }
                                }
                                return Ok(V::Bool(false));
                            }
                            "if" => {
                                if items.len() < 3 || items.len() > 4 {
                                    return Err(EvalError::Other("bad if".into()));
                                }
                                let c = self.eval(&items[1], env)?;
                                if truthy(&c) {
                                    return self.eval(&items[2], env);
                                } else if items.len() == 4 {
                                    return self.eval(&items[3], env);
                                }
                                return Ok(V::Unspec);
                            }
                            "when" | "unless" => {
                                if items.len() < 2 {
                                    return Err(EvalError::Other("bad when".into()));
                                }
                                let c = truthy(&self.eval(&items[1], env)?);
                                if c == (h == "when") {
                                    return self.eval_body(&items[2..], env);
                                }
                                return Ok(V::Unspec);
                            }
                            "begin" => return self.eval_body(&items[1..], env),
                            "quote" => {
                                if items.len() != 2 {
                                    return Err(EvalError::Other("bad quote".into()));
                                }
                                return Ok(quote(&items[1]));
                            }
                            "with-mutex" => {
                                if items.len() < 2 {
                                    return Err(EvalError::Other("bad with-mutex".into()));
                                }
                                let m = match self.eval(&items[1], env)? {
                                    V::Mutex(m) => m,
                                    other => return Err(EvalError::Type(format!("with-mutex: not a mutex: {}", display_string(&other)))),
                                };
                                self.w.lock(m)?;
                                let r = self.eval_body(&items[2..], env);
                                let u = self.w.unlock(m);
                                let v = r?;
                                u?;
                                return Ok(v);
                            }
                            "define" | "set!" | "use-modules" => {
                                return Err(EvalError::Other(format!("{} not expected inside a generated policy", h)));
                            }
                            _ => {}
                        }
                    }
                }
                let f = self.eval(&items[0], env)?;
                let mut args = Vec::with_capacity(items.len() - 1);
                for a in &items[1..] {
                    args.push(self.eval(a, env)?);
                }
                self.apply(&f, args)
            }
        }
    }

    fn eval_body(&mut self, body: &[Sx], env: &Env) -> R {
        let mut last = V::Unspec;
        for e in body {
            last = self.eval(e, env)?;
        }
        Ok(last)
    }

    fn eval_let(&mut self, kind: &str, items: &[Sx], env: &Env) -> R {
        if items.len() < 3 {
            return Err(EvalError::Other(format!("bad {}", kind)));
        }
        let binds = match &items[1] {
            Sx::List(b) => b,
            _ => return Err(EvalError::Other("bad let bindings".into())),
        };
        let mut inner = env.clone();
        for b in binds {
            let pair = match b {
                Sx::List(p) if p.len() == 2 => p,
                _ => return Err(EvalError::Other(format!("bad binding in {}: {}", kind, b.show()))),
            };
            let name = match &pair[0] {
                Sx::Sym(n) => n,
                _ => return Err(EvalError::Other("binding name is not a symbol".into())),
            };
            let v = if kind == "let*" { self.eval(&pair[1], &inner)? } else { self.eval(&pair[1], env)? };
            inner = inner.bind(name, v);
        }
        self.eval_body(&items[2..], &inner)
    }

    pub fn apply(&mut self, f: &V, args: Vec<V>) -> R {
        // identity of the procedures the policy body calls directly (matchers / printers): C11
        let id = match f {
            V::Lambda(l) => Rc::as_ptr(l) as *const u8 as usize,
            V::Printer(p) => Rc::as_ptr(p) as *const u8 as usize,
            _ => 0,
        };
        if id == 0 {
            return self.apply_inner(f, args);
        }
        self.w.call_depth_user += 1;
        let tracked = self.w.in_thunk && self.w.call_depth_user == 2;
        let before = self.w.wrote_in_call;
        if tracked {
            self.w.wrote_in_call = false;
        }
        let r = self.apply_inner(f, args);
        self.w.call_depth_user -= 1;
        if tracked {
            let wrote = self.w.wrote_in_call;
            self.w.wrote_in_call = before || wrote;
            if wrote {
                self.w.printer_objs.insert(id);
            } else if r.is_ok() {
                self.w.matcher_objs.insert(id);
            }
        }
        r
    }

    fn apply_inner(&mut self, f: &V, args: Vec<V>) -> R {
        match f {
            V::Lambda(l) => {
                if l.params.len() != args.len() {
                    return Err(EvalError::Arity(format!("lambda expects {} got {}", l.params.len(), args.len())));
                }
                let mut env = l.env.clone();
                for (p, a) in l.params.iter().zip(args.into_iter()) {
                    env = env.bind(p, a);
                }
                let body = l.body.clone();
                self.eval_body(&body, &env)
            }
            V::Printer(p) => {
                if args.len() != 1 {
                    return Err(EvalError::Arity("printer expects 1 argument".into()));
                }
                let text = match &args[0] {
                    V::Str(t) => t.to_string(),
                    other => display_string(other),
                };
                self.w.lock(p.mutex)?;
                let r1 = self.w.write(p.port, &text);
                let r2 = match (r1.is_ok(), p.delim) {
                    (true, Some(d)) => self.w.write(p.port, &d.to_string()),
                    _ => Ok(()),
                };
                self.w.unlock(p.mutex)?;
                r1?;
                r2?;
                Ok(V::Bool(true))
            }
            V::Prim(name) => self.prim(name, args),
            other => Err(EvalError::Type(format!("Wrong type to apply: {}", display_string(other)))),
        }
    }

    fn call_tracked(&mut self, f: &V, arg: V) -> R {
        self.apply(f, vec![arg])
    }

    fn num(v: &V, who: &str) -> Result<(i128, i128), EvalError> {
        match v {
            V::Int(i) => Ok((*i, 1)),
            V::Rat(n, d) => Ok((*n, *d)),
            other => Err(EvalError::Type(format!("{}: not a number: {}", who, display_string(other)))),
        }
    }
    fn int(v: &V, who: &str) -> Result<i128, EvalError> {
        match v {
            V::Int(i) => Ok(*i),
            other => Err(EvalError::Type(format!("{}: not an integer: {}", who, display_string(other)))),
        }
    }
    fn string(v: &V, who: &str) -> Result<Rc<String>, EvalError> {
        match v {
            V::Str(s) => Ok(s.clone()),
            other => Err(EvalError::Type(format!("{}: not a string: {}", who, display_string(other)))),
        }
    }
    fn ovf(who: &str) -> EvalError {
        EvalError::Other(format!("MODEL-OVERFLOW in {}", who))
    }
    fn mkrat(n: i128, d: i128) -> V {
        let g = gcd(n, d);
        let (mut n, mut d) = (n / g, d / g);
        if d < 0 {
            n = -n;
            d = -d;
        }
        if d == 1 {
            V::Int(n)
        } else {
            V::Rat(n, d)
        }
    }

    fn arity(name: &str, args: &[V], lo: usize, hi: usize) -> Result<(), EvalError> {
        if args.len() < lo || args.len() > hi {
            Err(EvalError::Arity(format!("{} called with {} arguments", name, args.len())))
        } else {
            Ok(())
        }
    }

    fn prim(&mut self, name: &'static str, args: Vec<V>) -> R {
        let a = &args;
        macro_rules! field {
            ($f:ident) => {{
                Self::arity(name, a, 0, 0)?;
                Ok(V::Int(self.w.rec()?.$f as i128))
            }};
        }
        match name {
            "=" | "<" | ">" | "<=" | ">=" => {
                if a.is_empty() {
                    return Err(EvalError::Arity(name.into()));
                }
                let mut ok = true;
                for i in 0..a.len() {
                    Self::num(&a[i], name)?;
                }
                for i in 0..a.len().saturating_sub(1) {
                    let (n1, d1) = Self::num(&a[i], name)?;
                    let (n2, d2) = Self::num(&a[i + 1], name)?;
                    let l = n1.checked_mul(d2).ok_or_else(|| Self::ovf(name))?;
                    let r = n2.checked_mul(d1).ok_or_else(|| Self::ovf(name))?;
                    ok &= match name {
                        "=" => l == r,
                        "<" => l < r,
                        ">" => l > r,
                        "<=" => l <= r,
                        _ => l >= r,
                    };
                }
                Ok(V::Bool(ok))
            }
            "+" | "*" => {
                let mut acc: i128 = if name == "+" { 0 } else { 1 };
                for v in a {
                    let i = Self::int(v, name)?;
                    acc = if name == "+" { acc.checked_add(i) } else { acc.checked_mul(i) }.ok_or_else(|| Self::ovf(name))?;
                }
                Ok(V::Int(acc))
            }
            "-" => {
                if a.is_empty() {
                    return Err(EvalError::Arity("-".into()));
                }
                let first = Self::int(&a[0], name)?;
                if a.len() == 1 {
                    return Ok(V::Int(-first));
                }
                let mut acc = first;
                for v in &a[1..] {
                    acc = acc.checked_sub(Self::int(v, name)?).ok_or_else(|| Self::ovf(name))?;
                }
                Ok(V::Int(acc))
            }
            "/" => {
                Self::arity(name, a, 2, 2)?;
                let (n1, d1) = Self::num(&a[0], name)?;
                let (n2, d2) = Self::num(&a[1], name)?;
                if n2 == 0 {
                    return Err(EvalError::Other("Numerical overflow (division by zero)".into()));
                }
                let n = n1.checked_mul(d2).ok_or_else(|| Self::ovf(name))?;
                let d = d1.checked_mul(n2).ok_or_else(|| Self::ovf(name))?;
                Ok(Self::mkrat(n, d))
            }
            "quotient" | "remainder" | "modulo" => {
                Self::arity(name, a, 2, 2)?;
                let x = Self::int(&a[0], name)?;
                let y = Self::int(&a[1], name)?;
                if y == 0 {
                    return Err(EvalError::Other("Numerical overflow (division by zero)".into()));
                }
                Ok(V::Int(match name {
                    "quotient" => x / y,
                    "remainder" => x % y,
                    _ => x.rem_euclid(y),
                }))
            }
            "logand" | "logior" => {
                let mut acc: i128 = if name == "logand" { -1 } else { 0 };
                for v in a {
                    let i = Self::int(v, name)?;
                    acc = if name == "logand" { acc & i } else { acc | i };
                }
                Ok(V::Int(acc))
            }
            "not" => {
                Self::arity(name, a, 1, 1)?;
                Ok(V::Bool(!truthy(&a[0])))
            }
            "member" => {
                Self::arity(name, a, 2, 2)?;
                match &a[1] {
                    V::List(l) => {
                        for (i, x) in l.iter().enumerate() {
                            if equal(&a[0], x) {
                                return Ok(V::List(Rc::new(l[i..].to_vec())));
                            }
                        }
                        Ok(V::Bool(false))
                    }
                    other => Err(EvalError::Type(format!("member: not a list: {}", display_string(other)))),
                }
            }
            "equal?" => {
                Self::arity(name, a, 2, 2)?;
                Ok(V::Bool(equal(&a[0], &a[1])))
            }
            "string=?" => {
                Self::arity(name, a, 2, 2)?;
                Ok(V::Bool(Self::string(&a[0], name)? == Self::string(&a[1], name)?))
            }
            "list" => Ok(V::List(Rc::new(args))),
            "format" => self.format(a),
            "display" => {
                Self::arity(name, a, 1, 2)?;
                let p = if a.len() == 2 {
                    match &a[1] {
                        V::Port(p) => *p,
                        other => return Err(EvalError::Type(format!("display: not a port: {}", display_string(other)))),
                    }
                } else {
                    0
                };
                let text = display_string(&a[0]);
                self.w.write(p, &text)?;
                Ok(V::Unspec)
            }
            "newline" => {
                Self::arity(name, a, 0, 1)?;
                let p = if a.len() == 1 {
                    match &a[0] {
                        V::Port(p) => *p,
                        other => return Err(EvalError::Type(format!("newline: not a port: {}", display_string(other)))),
                    }
                } else {
                    0
                };
                self.w.write(p, "\n")?;
                Ok(V::Unspec)
            }
            "force-output" => Ok(V::Unspec),
            "put-u8" | "put-char" | "put-string" => {
                // (put-u8 port byte) (put-char port char) (put-string port string): R6RS argument order
                Self::arity(name, a, 2, 2)?;
                let p = match &a[0] {
                    V::Port(p) => *p,
                    other => return Err(EvalError::Type(format!("{}: not a port: {}", name, display_string(other)))),
                };
                let text = match (name, &a[1]) {
                    ("put-u8", V::Int(b)) if *b >= 0 && *b < 256 => char::from_u32(*b as u32).unwrap().to_string(),
                    ("put-char", V::Char(c)) => c.to_string(),
                    ("put-string", V::Str(st)) => st.to_string(),
                    (_, other) => return Err(EvalError::Type(format!("{}: bad datum {}", name, display_string(other)))),
                };
                self.w.write(p, &text)?;
                Ok(V::Unspec)
            }
            "write-char" | "write-string" => {
                Self::arity(name, a, 1, 2)?;
                let p = if a.len() == 2 {
                    match &a[1] {
                        V::Port(p) => *p,
                        other => return Err(EvalError::Type(format!("{}: not a port: {}", name, display_string(other)))),
                    }
                } else {
                    0
                };
                let text = match (name, &a[0]) {
                    ("write-char", V::Char(c)) => c.to_string(),
                    ("write-string", V::Str(st)) => st.to_string(),
                    (_, other) => return Err(EvalError::Type(format!("{}: bad datum {}", name, display_string(other)))),
                };
                self.w.write(p, &text)?;
                Ok(V::Unspec)
            }
            "integer->char" => {
                Self::arity(name, a, 1, 1)?;
                let i = Self::int(&a[0], name)?;
                match u32::try_from(i).ok().and_then(char::from_u32) {
                    Some(c) => Ok(V::Char(c)),
                    None => Err(EvalError::Type("integer->char: out of range".into())),
                }
            }
            "char->integer" => {
                Self::arity(name, a, 1, 1)?;
                match &a[0] {
                    V::Char(c) => Ok(V::Int(*c as i128)),
                    other => Err(EvalError::Type(format!("char->integer: not a char: {}", display_string(other)))),
                }
            }
            "simple-format" => self.format(a),
            "string" => {
                let mut out = String::new();
                for v in a {
                    match v {
                        V::Char(c) => out.push(*c),
                        other => return Err(EvalError::Type(format!("string: not a character: {}", display_string(other)))),
                    }
                }
                Ok(s(&out))
            }
            "string-append" => {
                let mut out = String::new();
                for v in a {
                    out.push_str(&Self::string(v, name)?);
                }
                Ok(s(&out))
            }
            "number->string" => {
                Self::arity(name, a, 1, 1)?;
                Self::num(&a[0], name)?;
                Ok(s(&display_string(&a[0])))
            }
            "make-mutex" => {
                Self::arity(name, a, 0, 0)?;
                self.w.mutex_owner.push(None);
                Ok(V::Mutex(self.w.mutex_owner.len() - 1))
            }
            "lock-mutex" | "unlock-mutex" => {
                Self::arity(name, a, 1, 1)?;
                match &a[0] {
                    V::Mutex(m) => {
                        if name == "lock-mutex" {
                            self.w.lock(*m)?
                        } else {
                            self.w.unlock(*m)?
                        }
                        Ok(V::Bool(true))
                    }
                    other => Err(EvalError::Type(format!("{}: not a mutex: {}", name, display_string(other)))),
                }
            }
            "current-output-port" => {
                Self::arity(name, a, 0, 0)?;
                Ok(V::Port(0))
            }
            "open-file" | "open-output-file" => {
                if name == "open-file" {
                    Self::arity(name, a, 2, 2)?;
                    let mode = Self::string(&a[1], name)?;
                    if !mode.starts_with('w') && !mode.starts_with('a') {
                        return Err(EvalError::Port(format!("open-file: file opened with mode {:?}, not for writing", mode)));
                    }
                } else {
                    Self::arity(name, a, 1, 1)?;
                }
                let fname = Self::string(&a[0], name)?;
                if fname.contains('\0') {
                    return Err(EvalError::Port("open-file: file name contains NUL".into()));
                }
                self.w.ports.push(Port { dest: Dest::File(fname.to_string()), data: String::new(), closed: false });
                Ok(V::Port(self.w.ports.len() - 1))
            }
            "close-port" => {
                Self::arity(name, a, 1, 1)?;
                match &a[0] {
                    V::Port(p) => {
                        self.w.ports[*p].closed = true;
                        if self.w.scan_returned {
                            self.w.after_scan_closed.push(*p);
                        }
                        Ok(V::Bool(true))
                    }
                    other => Err(EvalError::Type(format!("close-port: not a port: {}", display_string(other)))),
                }
            }
            "localtime" => {
                Self::arity(name, a, 1, 2)?;
                Ok(V::Tm(Self::int(&a[0], name)?))
            }
            "strftime" => {
                Self::arity(name, a, 2, 2)?;
                let f = Self::string(&a[0], name)?;
                match &a[1] {
                    V::Tm(t) => Ok(s(&format!("<strftime:{}:{}>", f, t))),
                    other => Err(EvalError::Type(format!("strftime: not a broken-down time: {}", display_string(other)))),
                }
            }
            "dynamic-wind" => {
                Self::arity(name, a, 3, 3)?;
                self.apply(&a[0], vec![])?;
                let r = self.apply(&a[1], vec![]);
                let after = self.apply(&a[2], vec![]);
                let v = r?;
                after?;
                Ok(v)
            }
            "uid" => field!(uid),
            "gid" => field!(gid),
            "ino" => field!(ino),
            "nlink" => field!(nlink),
            "size" => field!(size),
            "blocks" => field!(blocks),
            "mode" => field!(mode),
            "atime" => field!(atime),
            "ctime" => field!(ctime),
            "mtime" => field!(mtime),
            "projid" => field!(projid),
            "lov-stripe-count" => field!(stripe_count),
            "lov-stripe-size" => field!(stripe_size),
            "lov-mirror-count" => field!(mirror_count),
            "file-fid" => {
                Self::arity(name, a, 0, 0)?;
                Ok(s(&self.w.rec()?.fid.clone()))
            }
            "name" => {
                Self::arity(name, a, 0, 0)?;
                Ok(s(&self.w.rec()?.name().to_string()))
            }
            "relative-path" => {
                Self::arity(name, a, 0, 0)?;
                Ok(s(&self.w.rec()?.relpath.clone()))
            }
            "absolute-path" => {
                Self::arity(name, a, 0, 0)?;
                Ok(s(&self.w.rec()?.abspath()))
            }
            "user" => {
                Self::arity(name, a, 0, 0)?;
                Ok(s(&self.w.rec()?.user.clone()))
            }
            "group" => {
                Self::arity(name, a, 0, 0)?;
                Ok(s(&self.w.rec()?.group.clone()))
            }
            "type" => {
                Self::arity(name, a, 0, 0)?;
                Ok(V::Int((self.w.rec()?.mode & crate::rec::S_IFMT) as i128 | (1 << 40)))
            }
            "type->char" => {
                Self::arity(name, a, 1, 1)?;
                let t = Self::int(&a[0], name)?;
                if t >> 40 != 1 {
                    return Err(EvalError::Type("type->char: not a file type object".into()));
                }
                let bits = (t & 0o170000) as u32;
                let c = crate::rec::TYPES.iter().find(|(_, b)| *b == bits).map(|(c, _)| *c).unwrap_or('U');
                Ok(s(&c.to_string()))
            }
            "lov-pools" => {
                Self::arity(name, a, 0, 0)?;
                Ok(V::List(Rc::new(self.w.rec()?.pools.iter().map(|p| s(p)).collect())))
            }
            "xattr?" => {
                Self::arity(name, a, 1, 1)?;
                let n = Self::string(&a[0], name)?;
                Ok(V::Bool(self.w.rec()?.xattrs.iter().any(|(k, _)| *k == *n)))
            }
            "xattr-ref-string" => {
                Self::arity(name, a, 1, 1)?;
                let n = Self::string(&a[0], name)?;
                Ok(match self.w.rec()?.xattrs.iter().find(|(k, _)| *k == *n) {
                    Some((_, v)) => s(v),
                    None => V::Bool(false),
                })
            }
            "xattr-match?" => {
                Self::arity(name, a, 2, 2)?;
                let n = Self::string(&a[0], name)?;
                let v = Self::string(&a[1], name)?;
                Ok(V::Bool(self.w.rec()?.xattrs.iter().any(|(k, w)| fnmatch(&n, k, false) && fnmatch(&v, w, false))))
            }
            "call-with-name" | "call-with-relative-path" | "call-with-absolute-path" => {
                Self::arity(name, a, 1, 1)?;
                let arg = match name {
                    "call-with-name" => self.w.rec()?.name().to_string(),
                    "call-with-relative-path" => self.w.rec()?.relpath.clone(),
                    _ => self.w.rec()?.abspath(),
                };
                let f = a[0].clone();
                self.call_tracked(&f, s(&arg))
            }
            "dirname" => {
                Self::arity(name, a, 1, 1)?;
                let p = Self::string(&a[0], name)?;
                Ok(s(&match p.rfind('/') {
                    Some(0) => "/".to_string(),
                    Some(i) => p[..i].to_string(),
                    None => ".".to_string(),
                }))
            }
            "basename" => {
                Self::arity(name, a, 1, 1)?;
                let p = Self::string(&a[0], name)?;
                Ok(s(match p.rfind('/') {
                    Some(i) => &p[i + 1..],
                    None => &p,
                }))
            }
            "streq?" | "streq-ci?" => {
                Self::arity(name, a, 2, 2)?;
                Ok(V::Bool(streq(&Self::string(&a[0], name)?, &Self::string(&a[1], name)?, name == "streq-ci?")))
            }
            "fnmatch?" | "fnmatch-ci?" => {
                Self::arity(name, a, 2, 2)?;
                Ok(V::Bool(fnmatch(&Self::string(&a[0], name)?, &Self::string(&a[1], name)?, name == "fnmatch-ci?")))
            }
            "round-up-power-of-2" => {
                Self::arity(name, a, 2, 2)?;
                let x = Self::int(&a[0], name)?;
                let m = Self::int(&a[1], name)?;
                if m <= 0 || (m & (m - 1)) != 0 {
                    return Err(EvalError::Other(format!("round-up-power-of-2: {} is not a power of two", m)));
                }
                Ok(V::Int(((x + m - 1) / m) * m))
            }
            "make-printer" => {
                Self::arity(name, a, 3, 3)?;
                let port = match &a[0] {
                    V::Port(p) => *p,
                    other => return Err(EvalError::Type(format!("make-printer: not a port: {}", display_string(other)))),
                };
                let mutex = match &a[1] {
                    V::Mutex(m) => *m,
                    other => return Err(EvalError::Type(format!("make-printer: not a mutex: {}", display_string(other)))),
                };
                let delim = match &a[2] {
                    V::Bool(false) => None,
                    V::Char(c) => Some(*c),
                    other => return Err(EvalError::Type(format!("make-printer: bad delimiter: {}", display_string(other)))),
                };
                Ok(V::Printer(Rc::new(PrinterObj { port, mutex, delim })))
            }
            "print-relative-path" | "print-absolute-path" | "print-file-fid" => {
                Self::arity(name, a, 0, 0)?;
                let text = match name {
                    "print-relative-path" => self.w.rec()?.relpath.clone(),
                    "print-absolute-path" => self.w.rec()?.abspath(),
                    _ => self.w.rec()?.fid.clone(),
                };
                self.w.lock(RUNTIME_LOCK)?;
                let r = self.w.write(0, &format!("{}\n", text));
                self.w.unlock(RUNTIME_LOCK)?;
                r?;
                Ok(V::Bool(true))
            }
            "lipe-scan-break" => {
                Self::arity(name, a, 0, 1)?;
                self.w.rec()?;
                self.w.stop = true;
                Ok(V::Bool(true))
            }
            "lipe-getopt-client-mount-path" => {
                Self::arity(name, a, 0, 0)?;
                Ok(V::Sentinel("getopt-client-mount-path"))
            }
            "lipe-getopt-required-attrs" => {
                Self::arity(name, a, 0, 0)?;
                Ok(V::Sentinel("getopt-required-attrs"))
            }
            "lipe-getopt-thread-count" => {
                Self::arity(name, a, 0, 0)?;
                Ok(V::Sentinel("getopt-thread-count"))
            }
            "lipe-scan-client-mount-path" => {
                Self::arity(name, a, 0, 0)?;
                Ok(s(&self.w.mount.clone()))
            }
            "empty" => {
                Self::arity(name, a, 0, 0)?;
                Ok(V::Bool(self.w.rec()?.empty))
            }
            "readable" => {
                Self::arity(name, a, 0, 0)?;
                Ok(V::Bool(self.w.rec()?.readable))
            }
            "writable" => {
                Self::arity(name, a, 0, 0)?;
                Ok(V::Bool(self.w.rec()?.writable))
            }
            "executable" => {
                Self::arity(name, a, 0, 0)?;
                Ok(V::Bool(self.w.rec()?.executable))
            }
            "lipe-scan" => self.lipe_scan(a),
            other => Err(EvalError::Unbound(other.to_string())),
        }
    }

    fn lipe_scan(&mut self, a: &[V]) -> R {
        Self::arity("lipe-scan", a, 5, 5)?;
        if self.w.scan.is_some() {
            return Err(EvalError::Other("lipe-scan called twice".into()));
        }
        let device = match &a[0] {
            V::Str(d) => d.to_string(),
            other => return Err(EvalError::Type(format!("lipe-scan: device is not a string: {}", display_string(other)))),
        };
        let mount_is_getopt = matches!(&a[1], V::Sentinel("getopt-client-mount-path"));
        let attrs_is_getopt = matches!(&a[3], V::Sentinel("getopt-required-attrs"));
        let threads = match &a[4] {
            V::Int(i) => Some(*i),
            V::Sentinel("getopt-thread-count") => None,
            other => return Err(EvalError::Type(format!("lipe-scan: bad thread count {}", display_string(other)))),
        };
        match &a[2] {
            V::Lambda(l) if l.params.is_empty() => {}
            _ => return Err(EvalError::Type("lipe-scan: callback is not a thunk".into())),
        }
        self.w.scan = Some(ScanCall { device, mount_is_getopt, attrs_is_getopt, threads });
        let thunk = a[2].clone();
        let n = self.w.records.len();
        for i in 0..n {
            self.w.cur = Some(i);
            self.w.thread = if self.w.defer { self.w.assign.get(i).copied().unwrap_or(0) } else { 0 };
            self.w.cur_writes.clear();
            self.w.stop = false;
            let step_start = self.w.steps.len();
            self.w.in_thunk = true;
            let saved_depth = self.w.call_depth_user;
            self.w.call_depth_user = 0;
            let r = self.apply(&thunk, vec![]);
            self.w.call_depth_user = saved_depth;
            self.w.in_thunk = false;
            let v = match r {
                Ok(v) => v,
                Err(e) => {
                    self.w.cur = None;
                    return Err(EvalError::Other(format!("record {}: {}", i, e)));
                }
            };
            let run = RecRun {
                truth: truthy(&v),
                writes: std::mem::take(&mut self.w.cur_writes),
                stop: self.w.stop,
                steps: self.w.steps[step_start..].to_vec(),
            };
            let stop = run.stop;
            self.w.runs.push(run);
            if stop && self.w.break_on_stop {
                break;
            }
        }
        self.w.cur = None;
        self.w.thread = 0;
        self.w.scan_returned = true;
        Ok(V::Unspec)
    }

    fn format(&mut self, a: &[V]) -> R {
        if a.len() < 2 {
            return Err(EvalError::Arity("format".into()));
        }
        let tmpl = Self::string(&a[1], "format")?;
        let mut out = String::new();
        let mut argi = 2;
        let cs: Vec<char> = tmpl.chars().collect();
        let mut i = 0;
        while i < cs.len() {
            if cs[i] != '~' {
                out.push(cs[i]);
                i += 1;
                continue;
            }
            i += 1;
            if i >= cs.len() {
                return Err(EvalError::Format("template ends in ~".into()));
            }
            let d = cs[i];
            i += 1;
            match d {
                '~' => out.push('~'),
                '%' => out.push('\n'),
                'a' | 'A' | 's' | 'S' | 'd' | 'D' | 'o' | 'O' | 'f' | 'F' | 'x' | 'X' => {
                    if argi >= a.len() {
                        return Err(EvalError::Format(format!("missing argument for ~{}", d)));
                    }
                    let v = &a[argi];
                    argi += 1;
                    match d.to_ascii_lowercase() {
                        'a' => out.push_str(&display_string(v)),
                        's' => match v {
                            V::Str(st) => out.push_str(&format!("{:?}", st)),
                            other => out.push_str(&display_string(other)),
                        },
                        'd' => match v {
                            V::Int(n) => out.push_str(&n.to_string()),
                            other => out.push_str(&display_string(other)),
                        },
                        'o' => match v {
                            V::Int(n) => out.push_str(&format!("{:o}", n)),
                            other => out.push_str(&display_string(other)),
                        },
                        'x' => match v {
                            V::Int(n) => out.push_str(&format!("{:x}", n)),
                            other => out.push_str(&display_string(other)),
                        },
                        _ => match v {
                            V::Int(n) => out.push_str(&format!("{}.0", n)),
                            V::Rat(n, dd) => out.push_str(&format!("<real:{}/{}>", n, dd)),
                            V::Str(_) => return Err(EvalError::Format("~f applied to a string".into())),
                            other => out.push_str(&display_string(other)),
                        },
                    }
                }
                other => return Err(EvalError::Format(format!("unsupported directive ~{}", other))),
            }
        }
        if argi != a.len() {
            return Err(EvalError::Format(format!("{} superfluous arguments", a.len() - argi)));
        }
        match &a[0] {
            V::Bool(false) => Ok(s(&out)),
            V::Bool(true) => {
                self.w.write(0, &out)?;
                Ok(V::Unspec)
            }
            V::Port(p) => {
                self.w.write(*p, &out)?;
                Ok(V::Unspec)
            }
            other => Err(EvalError::Type(format!("format: bad destination {}", display_string(other)))),
        }
    }
}

fn quote(x: &Sx) -> V {
    match x {
        Sx::Int(i) => V::Int(*i),
        Sx::Str(st) => s(st),
        Sx::Char(c) => V::Char(*c),
        Sx::Bool(b) => V::Bool(*b),
        Sx::Sym(n) => V::Str(Rc::new(format!("'{}", n))),
        Sx::List(l) => V::List(Rc::new(l.iter().map(quote).collect())),
    }
}

/// Outcome of running a policy on one record, in the vocabulary shared with the reference evaluator.
#[derive(Clone, Debug, PartialEq)]
pub struct Outcome {
    pub truth: bool,
    pub outs: Vec<(Dest, String)>,
    pub stop: bool,
}

pub fn merge_outs(outs: Vec<(Dest, String)>) -> Vec<(Dest, String)> {
    let mut res: Vec<(Dest, String)> = vec![];
    for (d, s) in outs {
        if s.is_empty() {
            continue;
        }
        match res.last_mut() {
            Some((ld, ls)) if *ld == d => ls.push_str(&s),
            _ => res.push((d, s)),
        }
    }
    res
}
