//! File records the model runtime and the reference evaluator are run on.

use crate::rng::Rng;

pub const S_IFMT: u32 = 0o170000;
pub const TYPES: [(char, u32); 7] = [
    ('b', 0o060000),
    ('c', 0o020000),
    ('d', 0o040000),
    ('p', 0o010000),
    ('f', 0o100000),
    ('l', 0o120000),
    ('s', 0o140000),
];

#[derive(Clone, Debug, PartialEq)]
pub struct FileRecord {
    pub relpath: String,
    pub mount: String,
    pub uid: u64,
    pub gid: u64,
    pub ino: u64,
    pub nlink: u64,
    pub size: u64,
    pub blocks: u64,
    pub mode: u32,
    pub atime: i128,
    pub ctime: i128,
    pub mtime: i128,
    pub projid: u64,
    pub fid: String,
    pub user: String,
    pub group: String,
    pub pools: Vec<String>,
    pub stripe_count: u64,
    pub stripe_size: u64,
    pub mirror_count: u64,
    pub xattrs: Vec<(String, String)>,
    pub empty: bool,
    pub readable: bool,
    pub writable: bool,
    pub executable: bool,
}

impl FileRecord {
    pub fn name(&self) -> &str {
        match self.relpath.rfind('/') {
            Some(i) => &self.relpath[i + 1..],
            None => &self.relpath,
        }
    }
    pub fn dirname(&self) -> String {
        match self.relpath.rfind('/') {
            Some(0) => "/".to_string(),
            Some(i) => self.relpath[..i].to_string(),
            None => ".".to_string(),
        }
    }
    pub fn abspath(&self) -> String {
        if self.mount.ends_with('/') {
            format!("{}{}", self.mount, self.relpath)
        } else {
            format!("{}/{}", self.mount, self.relpath)
        }
    }
    pub fn type_char(&self) -> char {
        let t = self.mode & S_IFMT;
        TYPES.iter().find(|(_, b)| *b == t).map(|(c, _)| *c).unwrap_or('U')
    }

    /// A record in which every numeric field has a distinct value so that a wrong accessor shows.
    pub fn base(i: u64) -> FileRecord {
        let k = 1000 + i * 97;
        FileRecord {
            relpath: format!("dir{}/sub/file{}.txt", i, i),
            mount: "/mnt/lustre".to_string(),
            uid: k + 1,
            gid: k + 2,
            ino: k + 3,
            nlink: (i % 5) + 1,
            size: k * 13 + 7,
            blocks: k / 3 + 11,
            mode: 0o100644,
            atime: 1_500_000_000 + (k as i128) * 1001,
            ctime: 1_400_000_000 + (k as i128) * 1003,
            mtime: 1_300_000_000 + (k as i128) * 1007,
            projid: k + 9,
            fid: format!("[0x20000040{}:0x{:x}:0x0]", i % 10, k),
            user: format!("user{}", i),
            group: format!("grp{}", i),
            pools: vec![],
            stripe_count: (i % 7) + 1,
            stripe_size: 65536 * ((i % 3) + 1),
            mirror_count: i % 4,
            xattrs: vec![],
            empty: false,
            readable: true,
            writable: false,
            executable: false,
        }
    }

    pub fn random(r: &mut Rng, i: u64) -> FileRecord {
        let mut f = FileRecord::base(i);
        f.uid = pick_num(r);
        f.gid = pick_num(r);
        f.ino = pick_num(r);
        f.nlink = pick_num(r);
        f.size = pick_num(r).max(1);
        f.blocks = pick_num(r);
        f.mode = TYPES[r.usize(7)].1 | (r.below(0o10000) as u32);
        f.projid = pick_num(r);
        f.stripe_count = r.below(20);
        f.mirror_count = r.below(5);
        f.empty = r.chance(1, 2);
        f.readable = r.chance(1, 2);
        f.writable = r.chance(1, 2);
        f.executable = r.chance(1, 2);
        f
    }
}

fn pick_num(r: &mut Rng) -> u64 {
    match r.below(6) {
        0 => r.below(4),
        1 => r.below(100),
        2 => r.below(70000),
        3 => (1u64 << 31) + r.below(5) - 2,
        4 => (1u64 << 32) + r.below(5) - 2,
        _ => r.next() >> r.below(40),
    }
}
