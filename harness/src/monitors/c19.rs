//! C19: tree query helpers agree with the tree (own folds vs the public helper methods).

use crate::gen::*;
use crate::json::J;
use crate::report::{par_cases, Ctx, Report};
use crate::rng::Rng;
use crate::sut::guard;
use lipe_find_parser::ast::*;

fn my_action(e: &Expression) -> bool {
    match e {
        Expression::Action(_) => true,
        Expression::Operator(op) => match op.as_ref() {
            Operator::Precedence(x) | Operator::Not(x) => my_action(x),
            Operator::And(a, b) | Operator::Or(a, b) | Operator::List(a, b) => my_action(a) | my_action(b),
        },
        _ => false,
    }
}

/// Some(bool) or None when the rule is unspecified (empty format list).
fn my_frames(e: &Expression) -> Option<bool> {
    match e {
        Expression::Action(a) => Some(match a {
            Action::PrintNull | Action::FileList(_) | Action::FilePrint(_) | Action::FilePrintNull(_) | Action::FilePrintFormatted(_, _) => true,
            Action::PrintFormatted(f) => match f.last() {
                None => return None,
                Some(FormatElement::Special(FormatSpecial::Newline)) => false,
                Some(_) => true,
            },
            _ => false,
        }),
        Expression::Operator(op) => match op.as_ref() {
            Operator::Precedence(x) | Operator::Not(x) => my_frames(x),
            Operator::And(a, b) | Operator::Or(a, b) | Operator::List(a, b) => {
                let (x, y) = (my_frames(a), my_frames(b));
                match (x, y) {
                    (Some(true), _) | (_, Some(true)) => Some(true),
                    (Some(false), Some(false)) => Some(false),
                    _ => None,
                }
            }
        },
        _ => Some(false),
    }
}

/// is the answer decided by a node that is not on the left spine?
fn off_left_spine(e: &Expression, f: &dyn Fn(&Expression) -> bool) -> bool {
    // strip the left spine: if the left-most path alone does not decide, something else did
    fn left_spine_true(e: &Expression, f: &dyn Fn(&Expression) -> bool) -> bool {
        match e {
            Expression::Operator(op) => match op.as_ref() {
                Operator::Precedence(x) | Operator::Not(x) => left_spine_true(x, f),
                Operator::And(a, _) | Operator::Or(a, _) | Operator::List(a, _) => left_spine_true(a, f),
            },
            leaf => f(leaf),
        }
    }
    f(e) && !left_spine_true(e, f)
}

fn depth(e: &Expression) -> usize {
    match e {
        Expression::Operator(op) => match op.as_ref() {
            Operator::Precedence(x) | Operator::Not(x) => 1 + depth(x),
            Operator::And(a, b) | Operator::Or(a, b) | Operator::List(a, b) => 1 + depth(a).max(depth(b)),
        },
        _ => 1,
    }
}

fn gen_any(r: &mut Rng, d: usize) -> Expression {
    if d == 0 || r.chance(1, 5) {
        return match r.below(12) {
            0 => Expression::Global(GlobalOption::Depth),
            1 => Expression::Positional(PositionalOption::XDev),
            2 => Expression::Global(GlobalOption::Threads(3)),
            3 | 4 => {
                let k = r.usize(SUPPORTED_ACTIONS);
                act(gen_action_kind(k, r))
            }
            5 => act(if r.chance(1, 2) { Action::Prune } else { Action::List }),
            6 => act(Action::FileList("x".into())),
            7 => act(Action::PrintFormatted(vec![])),
            // every variant of the public enums, also the ones parse() never returns (the deprecated
            // implicit-print action node, unsupported tests, degenerate hand-built values)
            8 => {
                #[allow(deprecated)]
                let a = act(Action::DefaultPrint);
                a
            }
            9 => gen_odd_leaf(r),
            10 if r.chance(1, 3) => t(gen_unsupported_test_with(r.usize(UNSUPPORTED_TESTS), r)),
            _ => {
                let k = r.usize(SUPPORTED_TESTS);
                t(gen_test_kind(k, r))
            }
        };
    }
    match r.below(6) {
        0 => prec(gen_any(r, d - 1)),
        1 => not(gen_any(r, d - 1)),
        2 | 3 => and(gen_any(r, d - 1), gen_any(r, d - 1)),
        4 => or(gen_any(r, d - 1), gen_any(r, d - 1)),
        _ => list(gen_any(r, d - 1), gen_any(r, d - 1)),
    }
}

pub fn run(ctx: &Ctx, rep: &mut Report) {
    let n = ctx.pick(20_000, 10_000_000);
    par_cases(ctx, "tree", n, rep, |i, rep| {
        let mut r = Rng::for_case(ctx.seed, "tree", i);
        // mostly action-free leaves so that a single action decides the answer
        let d = 1 + r.usize(12);
        let sparse = r.chance(2, 3);
        let e = if sparse {
            let leaves = 1 + r.usize(40);
            let hot = r.usize(leaves);
            let mut k = 0;
            let mut tree = gen_tree(&mut r, leaves, &mut |r| {
                let me = k;
                k += 1;
                if me == hot && r.chance(3, 4) {
                    if r.chance(1, 8) {
                        #[allow(deprecated)]
                        return act(match r.below(4) {
                            0 => Action::DefaultPrint,
                            1 => Action::Prune,
                            2 => Action::List,
                            _ => Action::Quit,
                        });
                    }
                    let a = r.usize(SUPPORTED_ACTIONS);
                    act(gen_action_kind(a, r))
                } else {
                    let tk = r.usize(SUPPORTED_TESTS);
                    t(gen_test_kind(tk, r))
                }
            });
            if r.chance(1, 3) {
                tree = prec(tree);
            }
            tree
        } else {
            gen_any(&mut r, d.min(9))
        };
        rep.evaluations += 1;
        let case = format!("tree:{}", i);
        rep.max("max_depth", depth(&e) as u64);
        let got = guard(|| (e.action(), e.complex_frames()));
        let (ga, gf) = match got {
            Ok(v) => v,
            Err(p) => {
                rep.violation(&format!("C19:{}", p.sig()), &format!("helper panicked: {}", p.0), &case, J::obj(vec![("tree", J::s(format!("{:?}", e)))]));
                return;
            }
        };
        let wa = my_action(&e);
        if ga != wa {
            rep.violation("C19:action", &format!("action() = {} but an action node {} in {:?}", ga, if wa { "occurs" } else { "does not occur" }, e), &case, J::obj(vec![("tree", J::s(format!("{:?}", e)))]));
            return;
        }
        match my_frames(&e) {
            None => rep.skipped_unspecified += 1,
            Some(wf) => {
                if gf != wf {
                    rep.violation("C19:complex-frames", &format!("complex_frames() = {} but own fold says {} for {:?}", gf, wf, e), &case, J::obj(vec![("tree", J::s(format!("{:?}", e)))]));
                    return;
                }
                if depth(&e) >= 3 && (off_left_spine(&e, &|x| my_action(x)) || off_left_spine(&e, &|x| my_frames(x) == Some(true))) {
                    rep.nontrivial(&format!("{:?}", e));
                    if rep.samples.len() < 4 && depth(&e) <= 5 {
                        rep.sample(J::obj(vec![("tree", J::s(format!("{:?}", e).split_whitespace().collect::<Vec<_>>().join(" "))), ("action", J::Bool(ga)), ("complex_frames", J::Bool(gf))]));
                    }
                }
            }
        }
        rep.count("trees_checked");
    });
    // unit tables and byte_size
    let n2 = ctx.pick(20_000, 500_000);
    par_cases(ctx, "units", n2, rep, |i, rep| {
        let mut r = Rng::for_case(ctx.seed, "units", i);
        rep.evaluations += 1;
        let case = format!("units:{}", i);
        let u = r.below(7);
        let mults: [u64; 7] = [1, 2, 512, 1 << 10, 1 << 20, 1 << 30, 1 << 40];
        let cnt = match r.below(4) {
            0 => u64::MAX / mults[u as usize],
            1 => r.below(5),
            2 => r.next() % (u64::MAX / mults[u as usize]).max(1),
            _ => boundary_u64(&mut r),
        };
        let s = mk_size(u, cnt);
        if s.mult() != mults[u as usize] {
            rep.violation("C19:size-unit", &format!("{:?}.mult() = {} expected {}", s, s.mult(), mults[u as usize]), &case, J::Null);
        }
        let prod = cnt as u128 * mults[u as usize] as u128;
        if prod <= u64::MAX as u128 {
            match guard(|| s.byte_size()) {
                Ok(b) if b as u128 == prod => rep.count("byte_sizes_checked"),
                Ok(b) => rep.violation("C19:byte-size", &format!("{:?}.byte_size() = {} expected {}", s, b, prod), &case, J::Null),
                Err(p) => rep.violation(&format!("C19:{}", p.sig()), &format!("byte_size panicked on {:?} although the product fits", s), &case, J::Null),
            }
            if prod > (u64::MAX as u128) / 2 {
                rep.nontrivial(&format!("{:?}", s));
            }
        }
        let tu = r.below(4);
        let secs: [u64; 4] = [1, 60, 3600, 86400];
        let ts = mk_time(tu, boundary_u64(&mut r));
        if ts.secs() != secs[tu as usize] {
            rep.violation("C19:time-unit", &format!("{:?}.secs() = {} expected {}", ts, ts.secs(), secs[tu as usize]), &case, J::Null);
        }
        // file type bits
        for (ft, c) in [(FileType::Block, 'b'), (FileType::Character, 'c'), (FileType::Directory, 'd'), (FileType::Pipe, 'p'), (FileType::File, 'f'), (FileType::Link, 'l'), (FileType::Socket, 's')] {
            let want = crate::rec::TYPES.iter().find(|(x, _)| *x == c).unwrap().1;
            if ft.octal().bits() != want {
                // not one of the helpers C19 names (C02 decides -type by behaviour): counted only
                rep.count("type_bits_differ_from_stat");
            }
        }
    });
    if ctx.only.is_none() {
        rep.floor("trees of depth >= 10 observed", rep.get_max("max_depth") >= 10);
        rep.floor("byte sizes checked", rep.get("byte_sizes_checked") > 1000);
    }
}
