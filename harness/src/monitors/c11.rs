//! C11: generated identifiers are bound once, before use, never captured; sharing is exact.

use crate::eval::Dest;
use crate::findsem::{actions, tests};
use crate::gen::*;
use crate::json::J;
use crate::rec::FileRecord;
use crate::report::{par_cases, Ctx, Report};
use crate::rng::Rng;
use crate::sexp::Sx;
use crate::sut::{opts_default, parse_g};
use crate::tv::{validate, Tv};
use lipe_find_parser::ast::*;
use std::collections::HashSet;

/// Scope monitor over the read program. Returns (bindings checked, problem).
pub fn scope_check(forms: &[Sx]) -> (usize, Option<String>) {
    let letstar = match forms.iter().find(|f| f.head() == Some("let*")) {
        Some(l) => l.list().unwrap(),
        None => return (0, Some("no let* form".into())),
    };
    let binds = match letstar.get(1).and_then(|b| b.list()) {
        Some(b) => b,
        None => return (0, Some("let* without binding list".into())),
    };
    let mut bound: Vec<String> = vec![];
    fn uses(x: &Sx, scope: &Vec<String>, let_names: &HashSet<String>, problem: &mut Option<String>) {
        match x {
            Sx::Sym(s) => {
                if s.starts_with("%lf3:") && !scope.contains(s) && problem.is_none() {
                    *problem = Some(format!("use of {} before (or without) its binding", s));
                }
            }
            Sx::List(l) => {
                if l.first().and_then(|h| h.sym()) == Some("lambda") && l.len() >= 3 {
                    let mut inner = scope.clone();
                    if let Some(ps) = l[1].list() {
                        for p in ps {
                            if let Some(n) = p.sym() {
                                if let_names.contains(n) && problem.is_none() {
                                    *problem = Some(format!("lambda parameter {} shadows a let* binding", n));
                                }
                                inner.push(n.to_string());
                            }
                        }
                    }
                    for b in &l[2..] {
                        uses(b, &inner, let_names, problem);
                    }
                } else {
                    for i in l {
                        uses(i, scope, let_names, problem);
                    }
                }
            }
            _ => {}
        }
    }
    let all_names: HashSet<String> = binds.iter().filter_map(|b| b.list().and_then(|p| p.first()).and_then(|n| n.sym()).map(|s| s.to_string())).collect();
    let mut problem = None;
    for b in binds {
        let pair = match b.list() {
            Some(p) if p.len() == 2 => p,
            _ => return (bound.len(), Some("malformed binding".into())),
        };
        let name = match pair[0].sym() {
            Some(n) => n.to_string(),
            None => return (bound.len(), Some("binding name is not a symbol".into())),
        };
        uses(&pair[1], &bound, &all_names, &mut problem);
        if bound.contains(&name) {
            return (bound.len(), Some(format!("{} is bound twice", name)));
        }
        bound.push(name);
    }
    for body in &letstar[2..] {
        uses(body, &bound, &all_names, &mut problem);
    }
    (bound.len(), problem)
}

fn matcher_requests(e: &Expression) -> HashSet<(String, bool)> {
    let mut ts = vec![];
    tests(e, &mut ts);
    ts.iter()
        .filter_map(|t| match t {
            Test::Name(s) | Test::Path(s) => Some((s.clone(), false)),
            Test::InsensitiveName(s) | Test::InsensitivePath(s) => Some((s.clone(), true)),
            _ => None,
        })
        .collect()
}

fn printer_requests(e: &Expression) -> HashSet<String> {
    let mut av = vec![];
    actions(e, &mut av);
    av.iter()
        .filter_map(|a| match a {
            Action::Print => Some((Dest::Stdout, Some('\n'))),
            Action::PrintNull => Some((Dest::Stdout, Some('\0'))),
            Action::PrintFormatted(_) => Some((Dest::Stdout, None)),
            Action::FilePrint(f) => Some((Dest::File(f.clone()), Some('\n'))),
            Action::FilePrintNull(f) => Some((Dest::File(f.clone()), Some('\0'))),
            Action::FilePrintFormatted(f, _) => Some((Dest::File(f.clone()), None)),
            _ => None,
        })
        .map(|p| format!("{:?}", p))
        .collect()
}

fn check(e: &Expression, recs: Vec<FileRecord>, all_run: bool, case: &str, rep: &mut Report, deliberate_repeat: bool) {
    rep.evaluations += 1;
    let mreq = matcher_requests(e);
    let preq = printer_requests(e);
    match validate(e, &opts_default(), &mut |_| recs.clone()) {
        Tv::Skip(_) => rep.skipped_unspecified += 1,
        Tv::Refused(m) => rep.violation("C11:refused", &format!("supported tree refused: {}", m), case, J::Null),
        Tv::Bad { kind, what, mut detail } => {
            detail.push("expression", J::s(render_default(e).unwrap_or_default().chars().take(600).collect::<String>()));
            rep.violation(&format!("C11:behaviour-{}", kind), &what, case, detail);
        }
        Tv::Agree { compiled, run, .. } => {
            let (n, problem) = scope_check(&run.forms);
            rep.add("bindings_checked", n as u64);
            rep.max("max_bindings_in_one_program", n as u64);
            if let Some(p) = problem {
                rep.violation("C11:scope", &p, case, J::obj(vec![("program", J::s(&compiled.text))]));
                return;
            }
            if all_run {
                let mo = run.interp.w.matcher_objs.len();
                let po = run.interp.w.printer_objs.len();
                if mo != mreq.len() {
                    rep.violation(
                        if mo < mreq.len() { "C11:matchers-merged" } else { "C11:matchers-not-shared" },
                        &format!("{} distinct (pattern, case) requests but {} distinct matcher objects were used at run time", mreq.len(), mo),
                        case,
                        J::obj(vec![("program", J::s(&compiled.text))]),
                    );
                    return;
                }
                if po != preq.len() {
                    rep.violation(
                        if po < preq.len() { "C11:printers-merged" } else { "C11:printers-not-shared" },
                        &format!("{} distinct (destination, terminator) requests but {} distinct printer objects were used at run time", preq.len(), po),
                        case,
                        J::obj(vec![("program", J::s(&compiled.text))]),
                    );
                    return;
                }
                rep.count("sharing_counts_checked");
            }
            rep.max("max_matchers", mreq.len() as u64);
            rep.max("max_printers", preq.len() as u64);
            if (mreq.len() >= 2 || preq.len() >= 2) && deliberate_repeat {
                rep.nontrivial(&format!("{:?}", e));
            }
            if rep.samples.is_empty() || (rep.samples.len() < 4 && mreq.len() + preq.len() >= 4 && mreq.len() + preq.len() < 9) {
                rep.sample(J::obj(vec![
                    ("expression", J::s(render_default(e).unwrap_or_default())),
                    ("matcher_requests", J::Int(mreq.len() as i128)),
                    ("printer_requests", J::Int(preq.len() as i128)),
                    ("bindings", J::Int(n as i128)),
                    ("framed", J::Bool(compiled.io_map.is_some())),
                ]));
            }
        }
    }
}

/// A chain in which every leaf runs on every record: ( T -o -true ) , ( T' -o -true ) , A , ...
fn all_run_chain(leaves: Vec<Expression>) -> Expression {
    let mut e: Option<Expression> = None;
    for l in leaves {
        let node = match &l {
            Expression::Test(_) => or(l, t(Test::True)),
            _ => l,
        };
        e = Some(match e {
            None => node,
            Some(p) => list(p, node),
        });
    }
    e.unwrap()
}

pub fn run(ctx: &Ctx, rep: &mut Report) {
    let n = ctx.pick(3000, 50_000);
    let max_res = if ctx.tier_thorough { 300 } else { 60 };
    par_cases(ctx, "chain", n, rep, |i, rep| {
        let mut r = Rng::for_case(ctx.seed, "chain", i);
        let k = match r.below(10) {
            0 => 0,
            1 => max_res / 2 + r.usize(max_res / 2 + 1),
            _ => 1 + r.usize(12),
        };
        // resource requests with deliberate repeats, case-only differences, literal/glob pairs
        let pats = ["a", "A", "a*", "A*", "b", "file1.txt", "FILE1.TXT", "*.txt", "q?", "zz"];
        let files = ["f1", "f2", "F1", "./f1"];
        let plain = r.chance(1, 3); // plain mode: only newline-terminated stdout output
        let mut leaves = vec![];
        let mut names_used: Vec<String> = vec![];
        for j in 0..k {
            let big = k > 20;
            let pat = if big && r.chance(2, 3) { format!("p{}", r.below(k as u64)) } else { pats[r.usize(pats.len())].to_string() };
            let leaf = match r.below(if plain { 6 } else { 10 }) {
                0 => t(Test::Name(pat)),
                1 => t(Test::InsensitiveName(pat)),
                2 => t(Test::Path(pat)),
                3 => t(Test::InsensitivePath(pat)),
                4 => act(Action::Print),
                5 => act(Action::PrintFormatted(vec![FormatElement::Field(FormatField::Basename), FormatElement::Special(FormatSpecial::Newline)])),
                6 => act(Action::FilePrint(if big { format!("o{}", r.below(k as u64)) } else { files[r.usize(4)].to_string() })),
                7 => act(Action::FilePrintNull(files[r.usize(4)].to_string())),
                8 => act(Action::PrintNull),
                _ => act(Action::FilePrintFormatted(files[r.usize(4)].to_string(), vec![FormatElement::Field(FormatField::Basename)])),
            };
            if let Expression::Test(Test::Name(s) | Test::InsensitiveName(s) | Test::Path(s) | Test::InsensitivePath(s)) = &leaf {
                names_used.push(s.clone());
            }
            let _ = j;
            leaves.push(leaf);
        }
        if leaves.is_empty() {
            leaves.push(t(Test::True));
        }
        let e = all_run_chain(leaves);
        // records: for each pattern a name only it matches, plus case variants
        let mut recs = vec![];
        names_used.sort();
        names_used.dedup();
        for (j, p) in names_used.iter().take(40).enumerate() {
            for v in name_variants(p).into_iter().take(3) {
                let mut rec = FileRecord::base(j as u64);
                rec.relpath = v;
                recs.push(rec);
            }
        }
        recs.push(FileRecord::base(99));
        check(&e, recs, true, &format!("chain:{}", i), rep, true);
    });
    // random trees (not all leaves run): scope + behaviour only
    let n2 = ctx.pick(2000, 30_000);
    par_cases(ctx, "tree", n2, rep, |i, rep| {
        let mut r = Rng::for_case(ctx.seed, "tree", i);
        let leaves = 2 + r.usize(10);
        let e = gen_tree(&mut r, leaves, &mut |r| match r.below(4) {
            0 => t(Test::Name(r.pick(NAME_POOL).to_string())),
            1 => t(Test::InsensitiveName(r.pick(NAME_POOL).to_string())),
            2 => act(gen_action_kind(r.usize(SUPPORTED_ACTIONS), r)),
            _ => t(Test::Path(r.pick(NAME_POOL).to_string())),
        });
        let mut rr = r.clone();
        let recs = directed_records(&e, crate::sut::now_secs(), &mut rr, 4);
        check(&e, recs, false, &format!("tree:{}", i), rep, false);
    });
    // text route
    let n3 = ctx.pick(500, 10_000);
    par_cases(ctx, "text", n3, rep, |i, rep| {
        let mut r = Rng::for_case(ctx.seed, "text", i);
        let k = 2 + r.usize(8);
        let leaves: Vec<Expression> = (0..k)
            .map(|_| match r.below(3) {
                0 => t(Test::Name(r.pick(&["a", "A", "a*", "b"]).to_string())),
                1 => t(Test::InsensitiveName(r.pick(&["a", "A", "a*", "b"]).to_string())),
                _ => act(Action::FilePrint(r.pick(&["f1", "f2"]).to_string())),
            })
            .collect();
        let e = all_run_chain(leaves);
        if let Some(text) = render_default(&e) {
            if let Ok(Ok((_, parsed))) = parse_g(&text) {
                let mut recs = vec![];
                for v in ["a", "A", "ab", "b", "c"] {
                    let mut rec = FileRecord::base(0);
                    rec.relpath = v.to_string();
                    recs.push(rec);
                }
                check(&parsed, recs, true, &format!("text:{}", i), rep, true);
            }
        }
    });
    if ctx.only.is_none() {
        rep.floor("sharing counts observed at run time", rep.get("sharing_counts_checked") > 100);
        rep.floor("programs with many resources observed", rep.get_max("max_bindings_in_one_program") >= 30);
    }
}
