//! C11: generated identifiers are bound once, before use, never captured; sharing is exact.

use crate::eval::Dest;
use crate::findsem::{actions, tests};
use crate::gen::*;
use crate::json::J;
use crate::rec::FileRecord;
use crate::report::{par_cases, Ctx, Report};
use crate::rng::Rng;
use crate::sexp::Sx;
use crate::sut::{opts_default, parse_g};
use crate::tv::{validate, Tv};
use lipe_find_parser::ast::*;
use std::collections::HashSet;

/// Scope monitor over the read program: every generated (`%lf3:`) name is bound exactly once, every
/// use of one is inside the scope of its binding, and no other binder (lambda parameter, nested
/// let, internal define) captures a name bound by the outer `let*`. Understands lambda, let, let*,
/// letrec, named let and internal define. Returns (bindings checked, problem).
pub fn scope_check(forms: &[Sx]) -> (usize, Option<String>) {
    // the policy form: whichever sequential or recursive binder the skeleton uses
    let letstar = match forms.iter().find(|f| matches!(f.head(), Some("let*" | "let" | "letrec" | "letrec*"))) {
        Some(l) => l,
        None => return (0, Some("no binding form (let*, let, letrec, letrec*) in the program".into())),
    };
    let top_kind = letstar.head().unwrap_or("let*").to_string();
    struct W {
        problem: Option<String>,
        bound_count: std::collections::HashMap<String, usize>,
        outer: HashSet<String>,
        bindings: usize,
    }
    impl W {
        fn bind(&mut self, name: &str, scope: &mut Vec<String>, is_outer: bool) {
            self.bindings += 1;
            if name.starts_with("%lf3:") || is_outer {
                let c = self.bound_count.entry(name.to_string()).or_insert(0);
                *c += 1;
                if *c > 1 && self.problem.is_none() {
                    self.problem = Some(format!("{} is bound more than once", name));
                }
            } else if self.outer.contains(name) && self.problem.is_none() {
                self.problem = Some(format!("inner binder {} captures a let* binding", name));
            }
            scope.push(name.to_string());
        }
        fn body(&mut self, body: &[Sx], scope: &Vec<String>) {
            // internal defines are visible in the whole body
            let mut inner = scope.clone();
            for f in body {
                if f.head() == Some("define") {
                    if let Some(l) = f.list() {
                        match l.get(1) {
                            Some(Sx::Sym(n)) => self.bind(n, &mut inner, false),
                            Some(Sx::List(sig)) => {
                                if let Some(n) = sig.first().and_then(|x| x.sym()) {
                                    self.bind(n, &mut inner, false);
                                }
                            }
                            _ => {}
                        }
                    }
                }
            }
            for f in body {
                if f.head() == Some("define") {
                    let l = f.list().unwrap();
                    match l.get(1) {
                        Some(Sx::List(sig)) => {
                            let mut fs = inner.clone();
                            for p in sig.iter().skip(1) {
                                if let Some(n) = p.sym() {
                                    self.bind(n, &mut fs, false);
                                }
                            }
                            self.body(&l[2..], &fs);
                        }
                        _ => {
                            for e in l.iter().skip(2) {
                                self.walk(e, &inner);
                            }
                        }
                    }
                } else {
                    self.walk(f, &inner);
                }
            }
        }
        fn walk(&mut self, x: &Sx, scope: &Vec<String>) {
            match x {
                Sx::Sym(s) => {
                    if s.starts_with("%lf3:") && !scope.contains(s) && self.problem.is_none() {
                        self.problem = Some(format!("use of {} before (or without) its binding", s));
                    }
                }
                Sx::List(l) => {
                    let head = l.first().and_then(|h| h.sym());
                    match head {
                        Some("quote") => {}
                        Some("lambda") if l.len() >= 3 => {
                            let mut inner = scope.clone();
                            if let Some(ps) = l[1].list() {
                                for p in ps {
                                    if let Some(n) = p.sym() {
                                        self.bind(n, &mut inner, false);
                                    }
                                }
                            }
                            self.body(&l[2..], &inner);
                        }
                        Some(k @ ("let" | "let*" | "letrec" | "letrec*")) if l.len() >= 3 => {
                            let (name, bi) = match &l[1] {
                                Sx::Sym(n) if k == "let" && l.len() >= 4 => (Some(n.clone()), 2),
                                _ => (None, 1),
                            };
                            let binds: Vec<&Sx> = l[bi].list().map(|b| b.iter().collect()).unwrap_or_default();
                            let mut inner = scope.clone();
                            if k == "letrec" || k == "letrec*" {
                                for b in &binds {
                                    if let Some(n) = b.list().and_then(|p| p.first()).and_then(|n| n.sym()) {
                                        self.bind(n, &mut inner, false);
                                    }
                                }
                                for b in &binds {
                                    if let Some(init) = b.list().and_then(|p| p.get(1)) {
                                        self.walk(init, &inner);
                                    }
                                }
                            } else {
                                for b in &binds {
                                    let p = match b.list() {
                                        Some(p) => p,
                                        None => continue,
                                    };
                                    if let Some(init) = p.get(1) {
                                        if k == "let*" {
                                            self.walk(init, &inner);
                                        } else {
                                            self.walk(init, scope);
                                        }
                                    }
                                    if let Some(n) = p.first().and_then(|n| n.sym()) {
                                        self.bind(n, &mut inner, false);
                                    }
                                }
                            }
                            if let Some(n) = name {
                                self.bind(&n, &mut inner, false);
                            }
                            self.body(&l[bi + 1..], &inner);
                        }
                        _ => {
                            for i in l {
                                self.walk(i, scope);
                            }
                        }
                    }
                }
                _ => {}
            }
        }
    }
    let l = letstar.list().unwrap();
    let binds = match l.get(1).and_then(|b| b.list()) {
        Some(b) => b,
        None => return (0, Some("let* without binding list".into())),
    };
    let outer: HashSet<String> = binds.iter().filter_map(|b| b.list().and_then(|p| p.first()).and_then(|n| n.sym()).map(|s| s.to_string())).collect();
    let mut w = W { problem: None, bound_count: std::collections::HashMap::new(), outer, bindings: 0 };
    let mut scope: Vec<String> = vec![];
    let mut pairs: Vec<(String, &Sx)> = vec![];
    for b in binds {
        let pair = match b.list() {
            Some(p) if p.len() == 2 => p,
            _ => return (w.bindings, Some("malformed binding".into())),
        };
        let name = match pair[0].sym() {
            Some(n) => n.to_string(),
            None => return (w.bindings, Some("binding name is not a symbol".into())),
        };
        pairs.push((name, &pair[1]));
    }
    match top_kind.as_str() {
        "let*" => {
            for (name, init) in &pairs {
                w.walk(init, &scope);
                w.bind(name, &mut scope, true);
            }
        }
        "let" => {
            let empty: Vec<String> = vec![];
            for (name, init) in &pairs {
                w.walk(init, &empty);
                w.bind(name, &mut scope, true);
            }
        }
        _ => {
            // letrec / letrec*: every name is in scope of every initialiser (an initialiser that
            // *evaluates* a later name fails in the model run, which C11 also performs)
            for (name, _) in &pairs {
                w.bind(name, &mut scope, true);
            }
            for (_, init) in &pairs {
                w.walk(init, &scope);
            }
        }
    }
    w.body(&l[2..], &scope);
    (w.bindings, w.problem)
}

#[cfg(test)]
mod tests {
    use super::scope_check;
    use crate::sexp::read_all;
    fn chk(src: &str) -> Option<String> {
        scope_check(&read_all(src).unwrap()).1
    }
    #[test]
    fn scope_rules() {
        assert_eq!(chk("(let* ((%lf3:a 1) (%lf3:b (lambda (%lf3:s) (f %lf3:a %lf3:s)))) (%lf3:b 2))"), None);
        assert!(chk("(let* ((%lf3:a %lf3:b) (%lf3:b 1)) 1)").unwrap().contains("before"));
        assert!(chk("(let* ((%lf3:a 1) (%lf3:a 2)) 1)").unwrap().contains("more than once"));
        assert!(chk("(let* ((%lf3:a 1)) (%lf3:zz))").unwrap().contains("before"));
        assert!(chk("(let* ((port 1) (%lf3:b (lambda (port) port))) 1)").unwrap().contains("captures"));
        assert_eq!(chk("(let* ((%lf3:m (let () (define (%lf3:p %lf3:s) (streq? \"x\" %lf3:s)) %lf3:p))) (%lf3:m 1))"), None);
        assert_eq!(chk("(let* ((%lf3:m 1)) (let loop ((i 0)) (if (< i %lf3:m) (loop (+ i 1)) i)))"), None);
        assert!(chk("(let* ((%lf3:m (lambda (%lf3:s) 1)) (%lf3:n (lambda (%lf3:s) 1))) 1)").unwrap().contains("more than once"));
        assert_eq!(chk("(letrec* ((%lf3:a 1) (%lf3:b (lambda () %lf3:a))) (%lf3:b))"), None);
        assert_eq!(chk("(letrec ((%lf3:b (lambda () %lf3:a)) (%lf3:a 1)) (%lf3:b))"), None);
        assert!(chk("(let ((%lf3:a 1) (%lf3:b %lf3:a)) 1)").unwrap().contains("before"));
        assert!(chk("(letrec* ((%lf3:a 1) (%lf3:a 2)) 1)").unwrap().contains("more than once"));
    }
}

fn matcher_requests(e: &Expression) -> HashSet<(String, bool)> {
    let mut ts = vec![];
    tests(e, &mut ts);
    ts.iter()
        .filter_map(|t| match t {
            Test::Name(s) | Test::Path(s) => Some((s.clone(), false)),
            Test::InsensitiveName(s) | Test::InsensitivePath(s) => Some((s.clone(), true)),
            _ => None,
        })
        .collect()
}

fn printer_requests(e: &Expression) -> HashSet<String> {
    let mut av = vec![];
    actions(e, &mut av);
    av.iter()
        .filter_map(|a| match a {
            Action::Print => Some((Dest::Stdout, Some('\n'))),
            Action::PrintNull => Some((Dest::Stdout, Some('\0'))),
            Action::PrintFormatted(_) => Some((Dest::Stdout, None)),
            Action::FilePrint(f) => Some((Dest::File(f.clone()), Some('\n'))),
            Action::FilePrintNull(f) => Some((Dest::File(f.clone()), Some('\0'))),
            Action::FilePrintFormatted(f, _) => Some((Dest::File(f.clone()), None)),
            _ => None,
        })
        .map(|p| format!("{:?}", p))
        .collect()
}

fn check(e: &Expression, recs: Vec<FileRecord>, all_run: bool, case: &str, rep: &mut Report, deliberate_repeat: bool) {
    rep.evaluations += 1;
    let mreq = matcher_requests(e);
    let preq = printer_requests(e);
    rep.max("max_requests_in_one_program", (mreq.len() + preq.len()) as u64);
    match validate(e, &crate::sut::opts_for(crate::rng::hash_str(case)), &mut |_| recs.clone()) {
        Tv::Skip(_) => rep.skipped_unspecified += 1,
        Tv::Refused(_) => rep.count("refused_by_compile"), // C12's subject
        Tv::Bad { kind, what, mut detail } => {
            detail.push("expression", J::s(render_default(e).unwrap_or_default().chars().take(600).collect::<String>()));
            rep.violation(&format!("C11:behaviour-{}", kind), &what, case, detail);
        }
        Tv::Agree { compiled, run, .. } => {
            let (n, problem) = scope_check(&run.forms);
            rep.add("bindings_checked", n as u64);
            rep.max("max_bindings_in_one_program", n as u64);
            if let Some(p) = problem {
                rep.violation("C11:scope", &p, case, J::obj(vec![("program", J::s(&compiled.text))]));
                return;
            }
            if all_run {
                let mo = run.interp.w.matcher_objs.len();
                let po = run.interp.w.printer_objs.len();
                // a program that creates no matcher (printer) objects at all - the test inlined at its
                // use - has no resource to share or to mix up; behaviour was compared above
                if mo == 0 && !mreq.is_empty() {
                    rep.count("programs_without_matcher_objects");
                } else if mo != mreq.len() {
                    rep.violation(
                        if mo < mreq.len() { "C11:matchers-merged" } else { "C11:matchers-not-shared" },
                        &format!("{} distinct (pattern, case) requests but {} distinct matcher objects were used at run time", mreq.len(), mo),
                        case,
                        J::obj(vec![("program", J::s(&compiled.text))]),
                    );
                    return;
                }
                if po == 0 && !preq.is_empty() {
                    rep.count("programs_without_printer_objects");
                } else if po != preq.len() {
                    rep.violation(
                        if po < preq.len() { "C11:printers-merged" } else { "C11:printers-not-shared" },
                        &format!("{} distinct (destination, terminator) requests but {} distinct printer objects were used at run time", preq.len(), po),
                        case,
                        J::obj(vec![("program", J::s(&compiled.text))]),
                    );
                    return;
                }
                rep.count("sharing_counts_checked");
            }
            rep.max("max_matchers", mreq.len() as u64);
            rep.max("max_printers", preq.len() as u64);
            if (mreq.len() >= 2 || preq.len() >= 2) && deliberate_repeat {
                rep.nontrivial(&format!("{:?}", e));
            }
            if rep.samples.is_empty() || (rep.samples.len() < 4 && mreq.len() + preq.len() >= 4 && mreq.len() + preq.len() < 9) {
                rep.sample(J::obj(vec![
                    ("expression", J::s(render_default(e).unwrap_or_default())),
                    ("matcher_requests", J::Int(mreq.len() as i128)),
                    ("printer_requests", J::Int(preq.len() as i128)),
                    ("bindings", J::Int(n as i128)),
                    ("framed", J::Bool(compiled.io_map.is_some())),
                ]));
            }
        }
    }
}

/// A chain in which every leaf runs on every record: ( T -o -true ) , ( T' -o -true ) , A , ...
fn all_run_chain(leaves: Vec<Expression>) -> Expression {
    let mut e: Option<Expression> = None;
    for l in leaves {
        let node = match &l {
            Expression::Test(_) => or(l, t(Test::True)),
            _ => l,
        };
        e = Some(match e {
            None => node,
            Some(p) => list(p, node),
        });
    }
    e.unwrap()
}

pub fn run(ctx: &Ctx, rep: &mut Report) {
    let n = ctx.pick(3000, 50_000);
    let max_res = if ctx.tier_thorough { 300 } else { 60 };
    par_cases(ctx, "chain", n, rep, |i, rep| {
        let mut r = Rng::for_case(ctx.seed, "chain", i);
        let k = match r.below(10) {
            0 => 0,
            1 => max_res / 2 + r.usize(max_res / 2 + 1),
            _ => 1 + r.usize(12),
        };
        // resource requests with deliberate repeats, case-only differences, literal/glob pairs
        let pats = ["a", "A", "a*", "A*", "b", "file1.txt", "FILE1.TXT", "*.txt", "q?", "zz"];
        let files = ["f1", "f2", "F1", "./f1"];
        let plain = r.chance(1, 3); // plain mode: only newline-terminated stdout output
        let mut leaves = vec![];
        let mut names_used: Vec<String> = vec![];
        for j in 0..k {
            let big = k > 20;
            let pat = if big && r.chance(2, 3) { format!("p{}", r.below(k as u64)) } else { pats[r.usize(pats.len())].to_string() };
            let leaf = match r.below(if plain { 6 } else { 10 }) {
                0 => t(Test::Name(pat)),
                1 => t(Test::InsensitiveName(pat)),
                2 => t(Test::Path(pat)),
                3 => t(Test::InsensitivePath(pat)),
                4 => act(Action::Print),
                5 => act(Action::PrintFormatted(vec![FormatElement::Field(FormatField::Basename), FormatElement::Special(FormatSpecial::Newline)])),
                6 => act(Action::FilePrint(if big { format!("o{}", r.below(k as u64)) } else { files[r.usize(4)].to_string() })),
                7 => act(Action::FilePrintNull(files[r.usize(4)].to_string())),
                8 => act(Action::PrintNull),
                _ => act(Action::FilePrintFormatted(files[r.usize(4)].to_string(), vec![FormatElement::Field(FormatField::Basename)])),
            };
            if let Expression::Test(Test::Name(s) | Test::InsensitiveName(s) | Test::Path(s) | Test::InsensitivePath(s)) = &leaf {
                names_used.push(s.clone());
            }
            let _ = j;
            leaves.push(leaf);
        }
        if leaves.is_empty() {
            leaves.push(t(Test::True));
        }
        let e = all_run_chain(leaves);
        // records: for each pattern a name only it matches, plus case variants
        let mut recs = vec![];
        names_used.sort();
        names_used.dedup();
        for (j, p) in names_used.iter().take(40).enumerate() {
            for v in name_variants(p).into_iter().take(3) {
                let mut rec = FileRecord::base(j as u64);
                rec.relpath = v;
                recs.push(rec);
            }
        }
        recs.push(FileRecord::base(99));
        check(&e, recs, true, &format!("chain:{}", i), rep, true);
    });
    // random trees (not all leaves run): scope + behaviour only
    let n2 = ctx.pick(2000, 30_000);
    par_cases(ctx, "tree", n2, rep, |i, rep| {
        let mut r = Rng::for_case(ctx.seed, "tree", i);
        let leaves = 2 + r.usize(10);
        let e = gen_tree(&mut r, leaves, &mut |r| match r.below(4) {
            0 => t(Test::Name(r.pick(NAME_POOL).to_string())),
            1 => t(Test::InsensitiveName(r.pick(NAME_POOL).to_string())),
            2 => act(gen_action_kind(r.usize(SUPPORTED_ACTIONS), r)),
            _ => t(Test::Path(r.pick(NAME_POOL).to_string())),
        });
        let e = if i % 4 == 0 { with_groups(&e, &mut r, 3) } else { e };
        let mut rr = r.clone();
        let recs = directed_records(&e, crate::sut::now_secs(), &mut rr, 4);
        check(&e, recs, false, &format!("tree:{}", i), rep, false);
    });
    // text route
    let n3 = ctx.pick(500, 10_000);
    par_cases(ctx, "text", n3, rep, |i, rep| {
        let mut r = Rng::for_case(ctx.seed, "text", i);
        let k = 2 + r.usize(8);
        let leaves: Vec<Expression> = (0..k)
            .map(|_| match r.below(3) {
                0 => t(Test::Name(r.pick(&["a", "A", "a*", "b"]).to_string())),
                1 => t(Test::InsensitiveName(r.pick(&["a", "A", "a*", "b"]).to_string())),
                _ => act(Action::FilePrint(r.pick(&["f1", "f2"]).to_string())),
            })
            .collect();
        let e = all_run_chain(leaves);
        if let Some(text) = render_default(&e) {
            if let Ok(Ok((_, parsed))) = parse_g(&text) {
                let mut recs = vec![];
                for v in ["a", "A", "ab", "b", "c"] {
                    let mut rec = FileRecord::base(0);
                    rec.relpath = v.to_string();
                    recs.push(rec);
                }
                check(&parsed, recs, true, &format!("text:{}", i), rep, true);
            }
        }
    });
    // requests that a *string-encoded* registry key would merge: (P, case-insensitive) next to
    // (P + flag spelling, case-sensitive), (file F, terminator) next to (F + terminator spelling, other
    // terminator), and the prefix forms. All-run chains, so the run-time sharing count sees a merge even
    // where no file name tells the two apart.
    let decor = ["/i", ":i", "-i", "_i", "i", "|i", ",i", " i", "/true", ":true", ",true", "true", "1", ":1", "#t", " #t", "/ci", ":ci", "/I", "\\i", "\ti", "\u{1}i", "/false", ":0", "0", "/0", "\\0", "\\n", ":n", ":nul", "/None", ":None", "\n", ",Some('\\n')", "/\\0", "::", ""];
    let n4 = ctx.pick(600, 40_000);
    par_cases(ctx, "keyenc", n4, rep, |i, rep| {
        let mut r = Rng::for_case(ctx.seed, "keyenc", i);
        let p = r.pick(&["src", "a", "a*", "x.y", "Data", "q?"]).to_string();
        let d = decor[(i as usize) % decor.len()];
        let decorated = match r.below(4) {
            0 => format!("{}{}", d.trim_start_matches(['/', ':', ',', '|', ' ', '-', '_']), p),
            1 => format!("{}{}", d, p),
            _ => format!("{}{}", p, d),
        };
        let path = r.chance(1, 2);
        let mk = |s: String, ci: bool| t(match (path, ci) { (false, false) => Test::Name(s), (false, true) => Test::InsensitiveName(s), (true, false) => Test::Path(s), (true, true) => Test::InsensitivePath(s) });
        let f = r.pick(&["out", "f1", "a"]).to_string();
        let fdec = format!("{}{}", f, d);
        let mut leaves = vec![];
        let flip = r.chance(1, 2);
        leaves.push(mk(p.clone(), !flip));
        leaves.push(mk(decorated.clone(), flip));
        if r.chance(1, 2) {
            leaves.push(mk(p.clone(), flip));
        }
        if d != "" {
            match r.below(4) {
                0 => {
                    leaves.push(act(Action::FilePrint(f.clone())));
                    leaves.push(act(Action::FilePrintNull(fdec.clone())));
                }
                1 => {
                    leaves.push(act(Action::FilePrintNull(f.clone())));
                    leaves.push(act(Action::FilePrint(fdec.clone())));
                }
                2 => {
                    leaves.push(act(Action::FilePrintFormatted(f.clone(), vec![FormatElement::Field(FormatField::Basename)])));
                    leaves.push(act(Action::FilePrint(fdec.clone())));
                    leaves.push(act(Action::FilePrintNull(f.clone())));
                }
                _ => {}
            }
        }
        r.shuffle(&mut leaves);
        let e = all_run_chain(leaves);
        let mut recs = vec![];
        for (j, v) in [p.clone(), decorated.clone(), p.to_uppercase(), decorated.to_uppercase(), "zz".to_string()].iter().enumerate() {
            let mut rec = FileRecord::base(j as u64);
            rec.relpath = v.clone();
            recs.push(rec);
        }
        rep.count("key_encoding_collision_candidates");
        check(&e, recs, true, &format!("keyenc:{}", i), rep, true);
    });
    // patterns that collide under the usual 32-bit string hashes (FNV-1a, FNV-1, djb2, djb2-xor, sdbm, the
    // 31-multiplier hash, one-at-a-time): a registry keyed by a hash of the request instead of the request
    // merges them. Collisions are searched at run time among "*.xxxxx" patterns (birthday search).
    let colliding: Vec<(String, String, &'static str)> = if ctx.wants("hashcoll") {
        fn fnv1a(s: &[u8]) -> u32 {
            s.iter().fold(0x811c_9dc5u32, |h, b| (h ^ *b as u32).wrapping_mul(0x0100_0193))
        }
        fn fnv1(s: &[u8]) -> u32 {
            s.iter().fold(0x811c_9dc5u32, |h, b| h.wrapping_mul(0x0100_0193) ^ *b as u32)
        }
        fn djb2(s: &[u8]) -> u32 {
            s.iter().fold(5381u32, |h, b| h.wrapping_mul(33).wrapping_add(*b as u32))
        }
        fn djb2x(s: &[u8]) -> u32 {
            s.iter().fold(5381u32, |h, b| h.wrapping_mul(33) ^ *b as u32)
        }
        fn sdbm(s: &[u8]) -> u32 {
            s.iter().fold(0u32, |h, b| (*b as u32).wrapping_add(h << 6).wrapping_add(h << 16).wrapping_sub(h))
        }
        fn java31(s: &[u8]) -> u32 {
            s.iter().fold(0u32, |h, b| h.wrapping_mul(31).wrapping_add(*b as u32))
        }
        fn oaat(s: &[u8]) -> u32 {
            let mut h = 0u32;
            for b in s {
                h = h.wrapping_add(*b as u32);
                h = h.wrapping_add(h << 10);
                h ^= h >> 6;
            }
            h = h.wrapping_add(h << 3);
            h ^= h >> 11;
            h.wrapping_add(h << 15)
        }
        // the whole family "*.xxxxx" (26^5 = 11.9 M patterns) is hashed and sorted per hash function; djb2 and
        // sdbm have no collision inside this family and stay in the list only for the record
        let hashes: [(&'static str, fn(&[u8]) -> u32); 7] = [("fnv1a", fnv1a), ("fnv1", fnv1), ("java31", java31), ("one-at-a-time", oaat), ("djb2-xor", djb2x), ("djb2", djb2), ("sdbm", sdbm)];
        let mut out = vec![];
        let word = |i: u32| -> String {
            let mut k = i;
            let mut w = String::from("*.");
            for _ in 0..5 {
                w.push((b'a' + (k % 26) as u8) as char);
                k /= 26;
            }
            w
        };
        let results: Vec<Vec<(String, String, &'static str)>> = std::thread::scope(|sc| {
            let hs: Vec<_> = hashes
                .iter()
                .map(|(name, f)| {
                    let (name, f) = (*name, *f);
                    sc.spawn(move || {
                        let mut v: Vec<(u32, u32)> = Vec::with_capacity(26usize.pow(5));
                        let mut buf = *b"*.aaaaa";
                        for i in 0..26u32.pow(5) {
                            let mut k = i;
                            for p in 0..5 {
                                buf[2 + p] = b'a' + (k % 26) as u8;
                                k /= 26;
                            }
                            v.push((f(&buf), i));
                        }
                        v.sort_unstable();
                        let mut found = vec![];
                        for w in v.windows(2) {
                            if w[0].0 == w[1].0 {
                                found.push((word(w[0].1), word(w[1].1), name));
                                if found.len() >= 8 {
                                    break;
                                }
                            }
                        }
                        found
                    })
                })
                .collect();
            hs.into_iter().map(|h| h.join().unwrap_or_default()).collect()
        });
        for r in results {
            out.extend(r);
        }
        out
    } else {
        vec![]
    };
    rep.add("hash_colliding_pattern_pairs_found", colliding.len() as u64);
    par_cases(ctx, "hashcoll", (colliding.len() * 4) as u64, rep, |i, rep| {
        let (a, b, _family) = &colliding[(i as usize) / 4];
        let mk = |s: &String, k: u64| match k {
            0 => t(Test::Name(s.clone())),
            1 => t(Test::InsensitiveName(s.clone())),
            2 => t(Test::Path(s.clone())),
            _ => t(Test::InsensitivePath(s.clone())),
        };
        let k = i % 4;
        let e = all_run_chain(vec![mk(a, k), mk(b, k), act(Action::Print)]);
        let mut recs = vec![];
        for (j, p) in [a, b].iter().enumerate() {
            for v in name_variants(p).into_iter().take(2) {
                let mut rec = FileRecord::base(j as u64);
                rec.relpath = v;
                recs.push(rec);
            }
        }
        rep.count("hash_collision_candidates");
        check(&e, recs, true, &format!("hashcoll:{}", i), rep, true);
    });
    if ctx.only.is_none() {
        rep.floor("sharing counts observed at run time", rep.get("sharing_counts_checked") > 100);
        rep.floor("programs with many resources observed (>= 30 bindings or >= 12 distinct requests)", rep.get_max("max_bindings_in_one_program") >= 30 || rep.get_max("max_requests_in_one_program") >= 12);
    }
}
