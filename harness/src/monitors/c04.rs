//! C04: emitted program is well-formed Scheme; user text stays data.

use crate::gen::*;
use crate::json::J;
use crate::policy::read_program;
use crate::report::{par_cases, Ctx, Report};
use crate::rng::Rng;
use crate::sexp::Sx;
use crate::sut::{compile_g, guard, opts_default, parse_g};
use crate::tv::{validate, Tv};
use lipe_find_parser::ast::*;
use lipe_find_parser::Target;

const ALPHA: [char; 18] = ['"', '\\', '~', '%', '(', ')', ';', '#', '\n', '\t', '\u{1}', '\u{e9}', '\u{1f600}', 'a', 'A', '*', '?', '['];

// every site in both output modes (the two managers generate definitions separately)
const SITES: [&str; 25] = [
    "name", "iname", "path", "ipath", "pool", "xattr", "xattr-match-name", "xattr-match-value", "fprint", "fprint0", "fprintf-file", "printf-literal", "fprintf-literal", "device",
    "name+framed", "iname+framed", "path+framed", "ipath+framed", "pool+framed", "xattr+framed", "xattr-match-name+framed", "xattr-match-value+framed", "printf-literal+plain", "printf-octal", "device+framed",
];

fn hostile_char(c: char) -> bool {
    matches!(c, '"' | '\\' | '~' | '%' | '(' | ')' | ';' | '#') || c.is_control() || !c.is_ascii()
}

fn twin(s: &str) -> String {
    s.chars().map(|c| if hostile_char(c) { 'X' } else { c }).collect()
}

fn quote_word(s: &str) -> Option<String> {
    // single quotes carry everything of this alphabet; fall back to the generic chooser otherwise
    if s.is_empty() {
        return None;
    }
    if !s.contains('\'') {
        return Some(format!("'{}'", s));
    }
    word(s, 2)
}

/// literal text -> format source in which it stands for itself
fn fmt_escape(s: &str) -> String {
    let mut o = String::new();
    for c in s.chars() {
        match c {
            '%' => o.push_str("%%"),
            '\\' => o.push_str("\\\\"),
            c => o.push(c),
        }
    }
    o
}

/// every character as a \\NNN escape (ASCII below 0200), others as they are
fn fmt_octal(s: &str) -> String {
    let mut o = String::new();
    for c in s.chars() {
        if (c as u32) < 0o200 && (c as u32) > 0 {
            o.push_str(&format!("\\{:03o}", c as u32));
        } else {
            o.push(c);
        }
    }
    o
}

fn input_for(site: &str, s: &str) -> Option<String> {
    let w = quote_word(s)?;
    if let Some(base) = site.strip_suffix("+framed") {
        if base == "device" {
            return Some("-print0".to_string());
        }
        return Some(format!("{} -print0", input_for(base, s)?));
    }
    Some(match site {
        "printf-literal+plain" => format!("-printf {}", quote_word(&format!("{}\\n", fmt_escape(s)))?),
        "printf-octal" => format!("-printf {}", quote_word(&fmt_octal(s))?),
        "name" => format!("-name {}", w),
        "iname" => format!("-iname {}", w),
        "path" => format!("-path {}", w),
        "ipath" => format!("-ipath {}", w),
        "pool" => format!("-pool {}", w),
        "xattr" => format!("-xattr {}", w),
        "xattr-match-name" => format!("-xattr-match {} val", w),
        "xattr-match-value" => format!("-xattr-match user {}", w),
        "fprint" => format!("-fprint {}", w),
        "fprint0" => format!("-fprint0 {}", w),
        "fprintf-file" => format!("-fprintf {} '%p\\n'", w),
        "printf-literal" => format!("-printf {}", quote_word(&fmt_escape(s))?),
        "fprintf-literal" => format!("-fprintf out {}", quote_word(&fmt_escape(s))?),
        "device" => "-true".to_string(),
        _ => return None,
    })
}

fn char_class(s: &str) -> &'static str {
    if s.contains('"') {
        "quote"
    } else if s.contains('\\') {
        "backslash"
    } else if s.contains('~') {
        "tilde"
    } else {
        "other"
    }
}

fn check(site: &str, s: &str, case: &str, rep: &mut Report) {
    let text = match input_for(site, s) {
        Some(t) => t,
        None => return, // not expressible
    };
    if site.contains("literal") && s.chars().next().map_or(false, |c| c.is_ascii_digit()) {
        return;
    }
    if site == "printf-octal" && s.chars().any(|c| c.is_ascii_digit() || c == '\\' || c == '%') {
        // a digit after \\NNN would extend nothing (three digits exactly) but keep the site simple;
        // raw '%' and '\\' would be read as directives / escapes
        if s.chars().any(|c| c.is_ascii_digit()) {
            return;
        }
    }
    rep.evaluations += 1;
    let class = char_class(s);
    let sig = |what: &str| format!("C04:{}:{}:{}", what, site, class);
    let detail = || J::obj(vec![("input", J::s(&text)), ("site", J::s(site)), ("string", J::s(s))]);
    let parsed = match parse_g(&text) {
        Ok(Ok(v)) => v,
        Ok(Err(_)) => {
            rep.count("not_accepted_by_parse");
            return;
        }
        Err(p) => {
            rep.violation(&format!("C04:{}", p.sig()), &format!("parse panicked on {:?}", text), case, detail());
            return;
        }
    };
    // the tree must carry the string itself (otherwise the parser, not the emitter, is the subject)
    let base_site = site.split('+').next().unwrap();
    let mut ts = vec![];
    let mut av = vec![];
    crate::findsem::tests(&parsed.1, &mut ts);
    crate::findsem::actions(&parsed.1, &mut av);
    let carried = base_site == "device"
        || ts.iter().any(|t| match (t, base_site) {
            (Test::Name(x) | Test::InsensitiveName(x) | Test::Path(x) | Test::InsensitivePath(x) | Test::Pool(x) | Test::Xattr(x), _) => x == s,
            (Test::XattrMatch(n, _), "xattr-match-name") => n == s,
            (Test::XattrMatch(_, v), "xattr-match-value") => v == s,
            _ => false,
        })
        || av.iter().any(|a| match (a, base_site) {
            (Action::FilePrint(f) | Action::FilePrintNull(f) | Action::FilePrintFormatted(f, _), "fprint" | "fprint0" | "fprintf-file") => f == s,
            (Action::PrintFormatted(f) | Action::FilePrintFormatted(_, f), _) => crate::findsem::render_format(f, &crate::rec::FileRecord::base(0)).map_or(false, |r| r == *s || r == format!("{}\n", s)),
            _ => false,
        });
    if !carried {
        rep.count("tree_does_not_carry_the_string");
        return;
    }
    let device = if base_site == "device" { s.to_string() } else { "/dev/mdt0".to_string() };
    let compiled = match compile_g(&parsed.1, &parsed.0, &device) {
        Ok((Ok(c), _, _)) => c,
        Ok((Err(_), _, _)) => {
            rep.count("not_compiled");
            return;
        }
        Err(p) => {
            rep.violation(&format!("C04:{}", p.sig()), &format!("compile panicked on {:?}", text), case, detail());
            return;
        }
    };
    if s.chars().any(|c| matches!(c, '"' | '\\' | '~')) {
        rep.nontrivial(&format!("{}|{}", site, s));
    }
    for c in s.chars() {
        if hostile_char(c) {
            rep.distinct("site_x_char", &format!("{}|{}", site, c));
        }
    }
    // (1) reads back as the two expected forms
    let forms = match read_program(&compiled.text) {
        Ok(f) => f,
        Err(e) => {
            rep.violation(&sig("unreadable"), &format!("{} string {:?}: emitted program does not read back: {}", site, s, e), case, detail());
            return;
        }
    };
    // (2) non-interference with the benign twin at the same site
    let ts = twin(s);
    // in format sites '%' and '\\' are elements of the mini-language, not literal text: an emitter may
    // legitimately give them a different shape
    let twin_applies = !((site.contains("literal") || site.contains("octal")) && (s.contains('%') || s.contains('\\')));
    if ts != *s && twin_applies {
        let twin_text = input_for(site, &ts);
        let twin_prog = twin_text.and_then(|tt| match parse_g(&tt) {
            Ok(Ok((o, e))) => {
                let dev = if base_site == "device" { ts.clone() } else { "/dev/mdt0".to_string() };
                match compile_g(&e, &o, &dev) {
                    Ok((Ok(c), _, _)) => read_program(&c.text).ok(),
                    _ => None,
                }
            }
            _ => None,
        });
        if let Some(tf) = twin_prog {
            let a = Sx::List(forms.clone()).skeleton();
            let b = Sx::List(tf).skeleton();
            if a != b {
                rep.violation(&sig("structure-changed"), &format!("{} string {:?} changes the structure of the program compared with its benign twin {:?}", site, s, ts), case, detail());
                return;
            }
            rep.count("twin_compared");
        }
    }
    // a string-literal leaf (or the destination table) carries exactly the user string
    let mut leaves = vec![];
    let whole = Sx::List(forms.clone());
    whole.strings(&mut leaves);
    let in_table = compiled.io_map.as_ref().map_or(false, |m| m.values().any(|t| matches!(t, Target::File(f, _) if f == s)));
    let needs_leaf = !site.contains("literal") && !site.contains("octal");
    if needs_leaf && !(leaves.iter().any(|l| *l == s) || in_table) {
        rep.violation(&sig("not-carried-verbatim"), &format!("{} string {:?}: no string literal of the program (nor the destination table) decodes to exactly that string; literals: {:?}", site, s, leaves.iter().take(6).collect::<Vec<_>>()), case, detail());
        return;
    }
    // (3) behaviour: execute and compare with the reference (literal format text printed verbatim,
    // patterns matched as given)
    if base_site != "device" {
        let mut r = Rng::new(3);
        let e = parsed.1.clone();
        match validate(&e, &parsed.0, &mut |now| directed_records(&e, now, &mut r, 2)) {
            Tv::Agree { .. } => rep.count("executed"),
            Tv::Skip(_) => rep.skipped_unspecified += 1,
            Tv::Refused(_) => {}
            Tv::Bad { kind, what, .. } => {
                rep.violation(&sig(&format!("exec-{}", kind)), &format!("{} string {:?}: {}", site, s, what), case, detail());
                return;
            }
        }
    } else {
        match crate::policy::run_policy(&compiled.text, compiled.io_map.as_ref(), vec![crate::rec::FileRecord::base(0)]) {
            Ok(run) if run.scan.device == *s => rep.count("executed"),
            Ok(run) => {
                rep.violation(&sig("wrong-device"), &format!("device path {:?} reached lipe-scan as {:?}", s, run.scan.device), case, detail());
                return;
            }
            Err(e) if e.is_model_limit() => {
                rep.violation("C04:model-lacks", &format!("device path {:?}: {}", s, e), case, J::Null);
                return;
            }
            Err(e) => {
                rep.violation(&sig("exec-error"), &format!("device path {:?}: {}", s, e), case, detail());
                return;
            }
        }
    }
    if rep.samples.is_empty() || (rep.samples.len() < 6 && class != "other" && rep.evaluations % 37 == 0) {
        rep.sample(J::obj(vec![("site", J::s(site)), ("string", J::s(s)), ("input", J::s(&text)), ("verdict", J::s("reads back; same structure as benign twin; a literal decodes to the string; executed output agrees"))]));
    }
}

/// Constructor route: strings the text route cannot carry (both quote kinds, an empty string, a
/// hostile xattr name inside a format) reach the emitter directly.
fn check_ctor(kind: u64, s: &str, case: &str, rep: &mut Report) {
    rep.evaluations += 1;
    let fmt_x = vec![FormatElement::Literal("v=".into()), FormatElement::Field(FormatField::XAttr(s.to_string()))];
    let (site, e) = match kind % 8 {
        0 => ("ctor-name", t(Test::Name(s.to_string()))),
        1 => ("ctor-ipath", t(Test::InsensitivePath(s.to_string()))),
        2 => ("ctor-pool", t(Test::Pool(s.to_string()))),
        3 => ("ctor-xattr-match", t(Test::XattrMatch(s.to_string(), format!("v{}", s)))),
        4 => ("ctor-format-xattr", act(Action::PrintFormatted(fmt_x))),
        5 => ("ctor-format-xattr+framed", act(Action::FilePrintFormatted("o".into(), fmt_x))),
        6 => ("ctor-fprint", act(Action::FilePrint(s.to_string()))),
        _ => ("ctor-literal", act(Action::PrintFormatted(vec![FormatElement::Literal(s.to_string())]))),
    };
    if s.is_empty() && kind % 8 == 7 {
        return;
    }
    if kind % 8 == 3 && s.contains('\\') && (s.contains('\'') || s.contains('*') || s.contains('?') || s.contains('[')) {
        return; // glob matching of patterns containing backslashes: unspecified (spec/UNSPECIFIED.md)
    }
    let class = char_class(s);
    let detail = || J::obj(vec![("site", J::s(site)), ("string", J::s(s)), ("tree", J::s(format!("{:?}", e)))]);
    let compiled = match compile_g(&e, &opts_default(), "/dev/mdt0") {
        Ok((Ok(c), _, _)) => c,
        Ok((Err(_), _, _)) => return,
        Err(p) => {
            rep.violation(&format!("C04:{}", p.sig()), &format!("compile panicked for {} string {:?}", site, s), case, detail());
            return;
        }
    };
    if s.chars().any(|c| matches!(c, '"' | '\\' | '~')) {
        rep.nontrivial(&format!("{}|{}", site, s));
    }
    let forms = match read_program(&compiled.text) {
        Ok(f) => f,
        Err(err) => {
            rep.violation(&format!("C04:unreadable:{}:{}", site, class), &format!("{} string {:?}: emitted program does not read back: {}", site, s, err), case, detail());
            return;
        }
    };
    if kind % 8 != 7 {
        let whole = Sx::List(forms);
        let mut leaves = vec![];
        whole.strings(&mut leaves);
        let in_table = compiled.io_map.as_ref().map_or(false, |m| m.values().any(|tg| matches!(tg, Target::File(f, _) if f == s)));
        if !(leaves.iter().any(|l| *l == s) || in_table) {
            rep.violation(&format!("C04:not-carried-verbatim:{}:{}", site, class), &format!("{} string {:?}: no literal decodes to it", site, s), case, detail());
            return;
        }
    }
    let mut r = Rng::new(11);
    let mut recs_extra = |now: i128| {
        let mut v = directed_records(&e, now, &mut r, 2);
        if let Some(first) = v.first_mut() {
            first.xattrs = vec![(s.to_string(), "val".to_string())];
        }
        v
    };
    match validate(&e, &opts_default(), &mut recs_extra) {
        Tv::Bad { kind: k, what, .. } => rep.violation(&format!("C04:exec-{}:{}:{}", k, site, class), &format!("{} string {:?}: {}", site, s, what), case, detail()),
        Tv::Agree { .. } => rep.count("executed_ctor"),
        _ => {}
    }
}

fn nth_string(mut idx: u64, len: u32) -> String {
    let mut cs = vec![];
    for _ in 0..len {
        cs.push(ALPHA[(idx % 18) as usize]);
        idx /= 18;
    }
    cs.iter().rev().collect()
}

pub fn run(ctx: &Ctx, rep: &mut Report) {
    let ns = SITES.len() as u64;
    let max_len: u32 = if ctx.tier_thorough { 3 } else { 2 };
    let mut per_site = 0u64;
    for l in 1..=max_len {
        per_site += 18u64.pow(l);
    }
    par_cases(ctx, "enum", per_site * ns, rep, |i, rep| {
        let site = SITES[(i % ns) as usize];
        let mut idx = i / ns;
        let mut len = 1;
        while idx >= 18u64.pow(len) {
            idx -= 18u64.pow(len);
            len += 1;
        }
        check(site, &nth_string(idx, len), &format!("enum:{}", i), rep);
    });
    rep.exhaustive = Some(true);
    rep.extra.push(("exhaustive_bound".into(), J::s(format!("every string of length 1..{} over the 18-character alphabet at each of {} sites", max_len, ns))));
    // sampled length 3 (quick) and random up to 24
    let n = ctx.pick(8000, 1_500_000);
    par_cases(ctx, "random", n, rep, |i, rep| {
        let mut r = Rng::for_case(ctx.seed, "random", i);
        let site = SITES[r.usize(SITES.len())];
        let len = if r.chance(1, 2) { 3 } else { 1 + r.usize(24) };
        let s: String = (0..len).map(|_| ALPHA[r.usize(18)]).collect();
        check(site, &s, &format!("random:{}", i), rep);
    });
    // strings a "helpful" normalisation would change (trim, ./, trailing /, case, duplicate /)
    let norm = ["./x", "x/", " x", "x ", "X", "x/../y", "a//b", "./", "/", "~", "~/x", "e\u{301}", "\u{e9}", ".", "..", "x.", "-x", "+x", "x\ty", "%2f", "&amp;", "x;", "$HOME", "`x`", "a b",
        // placeholder spellings of common templating schemes (a skeleton filled by textual replacement
        // would rewrite user text that happens to spell a placeholder)
        "/dev/stdout", "/dev/stderr", "/dev/null", "-", "stdout", "/dev/fd/1", "/proc/self/fd/1", "CON", "NUL",
        "{}", "{0}", "{1}", "{mdt}", "{device}", "{path}", "{policy}", "{policy_body}", "{body}", "{options}", "{threads}", "{modules}", "{definitions}", "{initialization}", "{init}", "{terminate}", "{{mdt}}", "${mdt}", "$mdt", "%(mdt)s", "@mdt@", "%s", "$1", "\\1", "<mdt>", "[mdt]",
    ];
    par_cases(ctx, "norm", (norm.len() * SITES.len()) as u64, rep, |i, rep| {
        let site = SITES[(i as usize) % SITES.len()];
        check(site, norm[(i as usize) / SITES.len()], &format!("norm:{}", i), rep);
    });
    // the generated family of placeholder spellings (syntaxes x names), alone and embedded in a longer word
    let fam = placeholder_family();
    let nf = ctx.pick((fam.len() * 4) as u64, (fam.len() * SITES.len() * 2) as u64);
    par_cases(ctx, "placeholder", nf, rep, |i, rep| {
        let mut r = Rng::for_case(ctx.seed, "placeholder", i);
        let site = SITES[r.usize(SITES.len())];
        let f = &fam[(i as usize) % fam.len()];
        let s = if (i as usize / fam.len()) % 2 == 0 { f.clone() } else { format!("backup{}0003", f) };
        check(site, &s, &format!("placeholder:{}", i), rep);
    });
    // constructor route: strings no quoting style can carry, and the xattr name inside a format
    let n_ctor = ctx.pick(4000, 400_000);
    par_cases(ctx, "ctor", n_ctor, rep, |i, rep| {
        let mut r = Rng::for_case(ctx.seed, "ctor", i);
        let fixed = ["", "'", "\"", "'\"", "a'b\"c", "\\", "~", "\"\\~", "x\"); (display 1", "\n", " "];
        let s: String = if (i / 8) < fixed.len() as u64 {
            fixed[(i / 8) as usize].to_string()
        } else {
            let len = 1 + r.usize(6);
            (0..len).map(|_| if r.chance(1, 4) { '\'' } else { ALPHA[r.usize(18)] }).collect()
        };
        check_ctor(i, &s, &format!("ctor:{}", i), rep);
    });
    // the k of %Ak / %Ck / %Tk
    par_cases(ctx, "strftime", 18 * 3, rep, |i, rep| {
        let k = ALPHA[(i % 18) as usize];
        let d = ['A', 'C', 'T'][(i / 18) as usize];
        let text = format!("-printf '%{}{}'", d, k);
        rep.evaluations += 1;
        let case = format!("strftime:{}", i);
        if let Ok(Ok((o, e))) = parse_g(&text) {
            match compile_g(&e, &o, "/dev/x") {
                Ok((Ok(c), _, _)) => match read_program(&c.text) {
                    Err(err) => rep.violation(&format!("C04:unreadable:strftime-selector:{}", char_class(&k.to_string())), &format!("{:?}: emitted program does not read back: {}", text, err), &case, J::obj(vec![("input", J::s(&text))])),
                    Ok(_) => {
                        let mut r = Rng::new(5);
                        match validate(&e, &o, &mut |now| directed_records(&e, now, &mut r, 1)) {
                            Tv::Bad { kind, what, .. } => rep.violation(&format!("C04:exec-{}:strftime-selector:{}", kind, char_class(&k.to_string())), &format!("{:?}: {}", text, what), &case, J::obj(vec![("input", J::s(&text))])),
                            _ => rep.count("executed"),
                        }
                    }
                },
                Err(p) => rep.violation(&format!("C04:{}", p.sig()), &format!("compile panicked on {:?}", text), &case, J::Null),
                _ => {}
            }
        }
    });
    let _ = guard(|| ());
    let _ = opts_default();
    if ctx.only.is_none() {
        let cells = rep.sets.get("site_x_char").map(|s| s.len()).unwrap_or(0);
        rep.extra.push(("site_x_hostile_char_cells_covered".into(), J::Int(cells as i128)));
        rep.floor("site x hostile-character matrix covered (>= 270 of 325 cells)", cells >= 270);
    }
}
