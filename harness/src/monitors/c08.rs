//! C08: permission arguments denote the bits chmod would compute; prefix selects the check.

use crate::gen::t;
use crate::json::J;
use crate::rec::FileRecord;
use crate::report::{par_cases, Ctx, Report};
use crate::rng::Rng;
use crate::spec::{chmod_symbolic, chmod_symbolic_d1};
use crate::sut::{opts_default, parse_g};
use crate::tv::{validate, Tv};
use lipe_find_parser::ast::*;

const WHO: [&str; 15] = ["u", "g", "o", "a", "ug", "uo", "ua", "go", "ga", "oa", "ugo", "uga", "uoa", "goa", "ugoa"];
const PERM: [&str; 7] = ["r", "w", "x", "rw", "rx", "wx", "rwx"];
const OPS: [char; 3] = ['+', '-', '='];

fn clause(i: usize) -> String {
    // 315 clauses
    let w = i / 21;
    let o = (i / 7) % 3;
    let p = i % 7;
    format!("{}{}{}", WHO[w], OPS[o], PERM[p])
}

fn check_arg(arg: &str, expect_bits: u32, symbolic: bool, prefix: usize, case: &str, rep: &mut Report, exec: bool, all_modes: bool) {
    rep.evaluations += 1;
    let pfx = ["", "-", "/"][prefix];
    let text = format!("-perm {}{}", pfx, arg);
    let parsed = match parse_g(&text) {
        Err(p) => {
            rep.violation(&format!("C08:{}", p.sig()), &format!("parse panicked on {:?}: {}", text, p.0), case, J::obj(vec![("input", J::s(&text))]));
            return;
        }
        Ok(Err(e)) => {
            rep.violation("C08:rejects-valid-mode", &format!("{:?} refused: {}", text, e), case, J::obj(vec![("input", J::s(&text))]));
            return;
        }
        Ok(Ok((_, e))) => e,
    };
    let (kind, bits) = match &parsed {
        Expression::Test(Test::Perm(PermCheck::Equal(p))) => (0, p.0.bits()),
        Expression::Test(Test::Perm(PermCheck::AtLeast(p))) => (1, p.0.bits()),
        Expression::Test(Test::Perm(PermCheck::Any(p))) => (2, p.0.bits()),
        other => {
            rep.violation("C08:not-a-perm-node", &format!("{:?} gave {:?}", text, other), case, J::obj(vec![("input", J::s(&text))]));
            return;
        }
    };
    if kind != prefix {
        rep.violation("C08:wrong-check-kind", &format!("{:?}: prefix {:?} must select check kind {} but tree has kind {}", text, pfx, prefix, kind), case, J::obj(vec![("input", J::s(&text))]));
        return;
    }
    if bits != expect_bits {
        let sig = if symbolic && arg.contains('-') && chmod_symbolic_d1(arg) == Some(bits) {
            "C08:perm-minus-clause:D1".to_string()
        } else if symbolic {
            "C08:wrong-bits-symbolic".to_string()
        } else {
            "C08:wrong-bits-octal".to_string()
        };
        rep.violation(&sig, &format!("{:?}: chmod gives {:04o}, tree carries {:04o}", text, expect_bits, bits), case, J::obj(vec![("input", J::s(&text)), ("expected", J::s(format!("{:04o}", expect_bits))), ("observed", J::s(format!("{:04o}", bits)))]));
        return;
    }
    rep.count("tree_bits_checked");
    if rep.samples.is_empty() || (rep.samples.len() < 5 && symbolic && arg.contains(',') && rep.evaluations % 9973 == 0) {
        rep.sample(J::obj(vec![("input", J::s(&text)), ("check_kind", J::s(["equal", "at-least", "any"][prefix])), ("bits", J::s(format!("{:04o}", bits))), ("verdict", J::s("tree carries the bits reference chmod computes"))]));
    }
    if !exec {
        return;
    }
    // '/' with no bit given ('/000', '/u-r'): C08 says "'/' means any given bit set", so with no bit given
    // the check holds for no file (newer GNU finds match everything; the property's sentence decides, and
    // C02's reference evaluator has always read it that way)
    if prefix == 2 && bits == 0 {
        rep.count("any_of_no_bits_executed");
    }
    // behaviour of the executed policy on directed (or all) modes
    let e = t(Test::Perm(match prefix {
        0 => PermCheck::Equal(Permission(lipe_find_parser::Mode::from_bits(bits).unwrap())),
        1 => PermCheck::AtLeast(Permission(lipe_find_parser::Mode::from_bits(bits).unwrap())),
        _ => PermCheck::Any(Permission(lipe_find_parser::Mode::from_bits(bits).unwrap())),
    }));
    let res = validate(&parsed, &opts_default(), &mut |_now| {
        let mut v = vec![];
        let mut modes: Vec<u32> = if all_modes { (0..4096).collect() } else { vec![bits, 0, 0o7777] };
        if !all_modes {
            for b in 0..12 {
                modes.push(bits ^ (1 << b));
            }
        }
        for (i, m) in modes.iter().enumerate() {
            let mut r = FileRecord::base(i as u64 % 50);
            r.mode = (if i % 2 == 0 { 0o100000 } else { 0o040000 }) | m;
            v.push(r);
        }
        v
    });
    let _ = e;
    match res {
        Tv::Agree { records, .. } => {
            rep.add("modes_executed", records as u64);
            rep.distinct("kind_perm_executed", &format!("{}:{:o}", prefix, bits));
        }
        Tv::Bad { kind, what, detail } => {
            rep.violation(&format!("C08:exec-{}:{}", kind, ["equal", "at-least", "any"][prefix]), &format!("{:?}: {}", text, what), case, detail);
        }
        Tv::Refused(_) => rep.count("refused_by_compile"), // C12's subject
        Tv::Skip(_) => rep.skipped_unspecified += 1,
    }
}

pub fn run(ctx: &Ctx, rep: &mut Report) {
    // octal: all 4096 values, 3-digit (where they fit) and 4-digit spelling, 3 prefixes
    par_cases(ctx, "octal", 4096 * 2 * 3, rep, |i, rep| {
        let v = (i % 4096) as u32;
        let four = (i / 4096) % 2 == 1;
        let prefix = (i / 8192) as usize;
        if !four && v > 0o777 {
            return;
        }
        let arg = if four { format!("{:04o}", v) } else { format!("{:03o}", v) };
        // execute every (kind, perm) once (4-digit spelling); thorough runs all 4096 modes for a sample
        let exec = four;
        let all = ctx.tier_thorough && v % 7 == 0;
        check_arg(&arg, v, false, prefix, &format!("octal:{}", i), rep, exec, all);
    });
    // all 315 single clauses x 3 prefixes
    par_cases(ctx, "single", 315 * 3, rep, |i, rep| {
        let c = clause((i % 315) as usize);
        let want = chmod_symbolic(&c).unwrap();
        check_arg(&c, want, true, (i / 315) as usize, &format!("single:{}", i), rep, true, ctx.tier_thorough);
    });
    // all 99 225 ordered pairs x 3 prefixes
    par_cases(ctx, "pairs", 315 * 315 * 3, rep, |i, rep| {
        let a = clause((i % 315) as usize);
        let b = clause(((i / 315) % 315) as usize);
        let arg = format!("{},{}", a, b);
        let want = chmod_symbolic(&arg).unwrap();
        let later_changes = chmod_symbolic(&a).unwrap() != want && chmod_symbolic(&b).unwrap() != want;
        if later_changes {
            rep.add("nontrivial_by_construction", 1);
        }
        check_arg(&arg, want, true, (i / (315 * 315)) as usize, &format!("pairs:{}", i), rep, i % 40 == 0, false);
    });
    rep.exhaustive = Some(true);
    rep.extra.push(("exhaustive_bound".into(), J::s("all 4096 octal values (3- and 4-digit spelling), all 315 single clauses, all 99225 ordered clause pairs; each under no prefix, '-' and '/'")));
    // sampled triples / quadruples incl. shuffled and repeated letters
    let n = ctx.pick(30_000, 20_000_000);
    par_cases(ctx, "multi", n, rep, |i, rep| {
        let mut r = Rng::for_case(ctx.seed, "multi", i);
        let k = 3 + r.usize(2);
        let mut parts = vec![];
        for _ in 0..k {
            let mut who: Vec<char> = WHO[r.usize(15)].chars().collect();
            let mut perm: Vec<char> = PERM[r.usize(7)].chars().collect();
            if r.chance(1, 3) {
                who.push(*r.pick(&['u', 'g', 'o', 'a']));
                r.shuffle(&mut who);
            }
            if r.chance(1, 3) {
                perm.push(*r.pick(&['r', 'w', 'x']));
                r.shuffle(&mut perm);
            }
            parts.push(format!("{}{}{}", who.iter().collect::<String>(), OPS[r.usize(3)], perm.iter().collect::<String>()));
        }
        let arg = parts.join(",");
        let want = chmod_symbolic(&arg).unwrap();
        rep.nontrivial(&arg);
        check_arg(&arg, want, true, r.usize(3), &format!("multi:{}", i), rep, i % 50 == 0, false);
    });
    // chmod's fuller grammar (X, empty who, empty permission list): may be refused; if accepted the
    // bits are fixed by chmod (X adds execute only where an execute bit is already set)
    let fuller = ["a+X", "u+X", "+X", "u+x,a+X", "u+x,g+X", "a=X", "u=rX", "+r", "+x", "=r", "u=", "a=", "u+r,g=", "ug+Xr", "a+x,o=X", "a+X,u+x"];
    par_cases(ctx, "fuller", (fuller.len() * 3) as u64, rep, |i, rep| {
        rep.evaluations += 1;
        let text = format!("-perm {}{}", ["", "-", "/"][(i as usize) / fuller.len()], fuller[(i as usize) % fuller.len()]);
        match crate::cmp::compare(&text) {
            crate::cmp::Cmp::Bad { kind, what, detail } => rep.violation(&format!("C08:fuller-grammar:{}", kind), &what, &format!("fuller:{}", i), detail),
            crate::cmp::Cmp::Skip(_) => rep.skipped_unspecified += 1,
            crate::cmp::Cmp::AgreeOk(..) => rep.count("fuller_grammar_accepted_with_chmod_bits"),
            crate::cmp::Cmp::AgreeErr(..) => rep.count("fuller_grammar_refused"),
        }
    });
    // octal spellings outside the 3-4 digits of the project's grammar: 1-2 digits, leading zeros, and
    // values above 07777 (5..24 digits, incl. values whose low twelve bits look like an ordinary mode and
    // values beyond 2^32 / 2^64). May be refused; if accepted the bits are exactly the value, so a value
    // above 07777 can only be refused.
    let n = ctx.pick(400, 200_000);
    par_cases(ctx, "oddlen", n, rep, |i, rep| {
        let mut r = Rng::for_case(ctx.seed, "oddlen", i);
        rep.evaluations += 1;
        let low = r.below(0o10000);
        let body = match r.below(6) {
            0 => format!("{:o}", r.below(0o100)),                                 // 1-2 digits
            1 => format!("{}{:04o}", "0".repeat(1 + r.usize(20)), low),            // leading zeros, value fits
            2 => format!("{:o}{:04o}", 1 + r.below(0o77), low),                    // 5-6 digits, file-type-like high bits
            3 => format!("{:o}{:04o}", 1u64 << (r.below(52) + 1), low),            // high bit far away
            4 => format!("{}{:04o}", "7".repeat(1 + r.usize(24)), low),            // beyond u32 / u64
            _ => format!("{:o}", (1u64 << 32) * (1 + r.below(9)) + low),           // 2^32 multiples + ordinary mode
        };
        let text = format!("-perm {}{}", ["", "-", "/"][r.usize(3)], body);
        match crate::cmp::compare(&text) {
            crate::cmp::Cmp::Bad { kind, what, detail } => rep.violation(&format!("C08:octal-spelling:{}", kind), &what, &format!("oddlen:{}", i), detail),
            crate::cmp::Cmp::Skip(_) => rep.skipped_unspecified += 1,
            crate::cmp::Cmp::AgreeOk(..) => rep.count("odd_octal_spelling_accepted_with_exact_bits"),
            crate::cmp::Cmp::AgreeErr(..) => rep.count("odd_octal_spelling_refused"),
        }
    });
    if ctx.only.is_none() {
        rep.floor("permission checks executed", rep.get("modes_executed") > 1000);
    }
}
