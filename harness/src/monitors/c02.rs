//! C02: the emitted policy, executed in the model runtime, means what the tree means.

use crate::findsem;
use crate::gen::*;
use crate::json::J;
use crate::monitors::variant;
use crate::report::{par_cases, Ctx, Report};
use crate::rng::Rng;
use crate::sut::{opts_default, parse_g};
use crate::tv::{validate, Tv};
use lipe_find_parser::ast::*;

/// When a tree disagrees, find which leaves disagree on their own (signature = those kinds).
fn localise(e: &Expression, seed_rng: &Rng) -> Vec<String> {
    let mut leaves: Vec<Expression> = vec![];
    let mut ts = vec![];
    let mut acts = vec![];
    findsem::tests(e, &mut ts);
    findsem::actions(e, &mut acts);
    leaves.extend(ts.into_iter().map(|x| t(x.clone())));
    leaves.extend(acts.into_iter().map(|x| act(x.clone())));
    let mut bad = vec![];
    for l in leaves {
        let mut r = seed_rng.clone();
        let res = validate(&l, &opts_default(), &mut |now| directed_records(&l, now, &mut r, 6));
        if let Tv::Bad { .. } = res {
            bad.push(match &l {
                Expression::Test(x) => variant(x),
                Expression::Action(x) => variant(x),
                _ => String::new(),
            });
        }
    }
    if bad.is_empty() {
        // no leaf fails alone: try ordered pairs, both forced to run
        let mut all: Vec<Expression> = vec![];
        let mut ts = vec![];
        let mut acts = vec![];
        findsem::tests(e, &mut ts);
        findsem::actions(e, &mut acts);
        all.extend(ts.into_iter().map(|x| t(x.clone())));
        all.extend(acts.into_iter().map(|x| act(x.clone())));
        'outer: for a in &all {
            for b in &all {
                let pair = list(or(a.clone(), t(Test::True)), b.clone());
                let mut r = seed_rng.clone();
                if let Tv::Bad { .. } = validate(&pair, &opts_default(), &mut |now| directed_records(&pair, now, &mut r, 4)) {
                    let mut k = crate::monitors::leaf_kinds(&list(a.clone(), b.clone()));
                    k.sort();
                    bad = k;
                    break 'outer;
                }
            }
        }
    }
    bad.sort();
    bad.dedup();
    bad
}

pub fn check_tree(e: &Expression, case: &str, rng: &mut Rng, rep: &mut Report, extra: usize) {
    rep.evaluations += 1;
    let r0 = rng.clone();
    // the options are an input of compile() too
    let mut opts = opts_default();
    match rng.below(4) {
        0 => opts.threads = Some(rng.below(64) as u32),
        1 => {
            opts.threads = Some(1);
            opts.depth = true;
        }
        _ => {}
    }
    let res = validate(e, &opts, &mut |now| directed_records(e, now, rng, extra));
    match res {
        Tv::Agree { records, compiled, run, truths } => {
            rep.add("disagreements_checked", records as u64);
            rep.count("programs");
            rep.distinct("programs", &format!("{:?}", e));
            let mut ts = vec![];
            findsem::tests(e, &mut ts);
            // per-kind coverage is only attributable for single-leaf programs; for trees record kinds seen
            for x in &ts {
                rep.distinct("test_kinds", &variant(*x));
            }
            let mut acts = vec![];
            findsem::actions(e, &mut acts);
            for a in &acts {
                rep.distinct("action_kinds", &variant(*a));
            }
            if let Expression::Test(x) = e {
                let k = variant(x);
                if truths.iter().any(|b| *b) {
                    rep.distinct("test_kind_seen_true", &k);
                }
                if truths.iter().any(|b| !*b) {
                    rep.distinct("test_kind_seen_false", &k);
                }
            }
            if let Expression::Action(a) = e {
                if run.outcomes.iter().any(|o| !o.outs.is_empty() || o.stop) {
                    rep.distinct("action_kind_seen_acting", &variant(a));
                }
            }
            if run.outcomes.iter().any(|o| !o.outs.is_empty()) {
                rep.count("programs_with_output");
            }
            if compiled.io_map.is_some() {
                rep.count("programs_framed");
                rep.add("frames_decoded", run.frames as u64);
            }
            if truths.iter().any(|b| *b) && truths.iter().any(|b| !*b) {
                rep.nontrivial(&format!("{:?}", e));
            }
            if rep.samples.len() < 4 {
                rep.sample(J::obj(vec![
                    ("case", J::s(case)),
                    ("expression", J::s(render_default(e).unwrap_or_else(|| format!("{:?}", e)))),
                    ("records", J::Int(records as i128)),
                    ("records_true", J::Int(truths.iter().filter(|b| **b).count() as i128)),
                    ("program_head", J::s(compiled.text.chars().take(200).collect::<String>())),
                ]));
            }
        }
        Tv::Skip(why) => {
            rep.skipped_unspecified += 1;
            rep.count(&format!("skip:{}", why.split('(').next().unwrap_or("")));
        }
        Tv::Refused(msg) => {
            // C02 speaks of "every expression that compiles": a refusal of a supported tree is C12's
            // subject (C12 runs the same constructors); here it is counted and bounded by a floor
            let _ = msg;
            rep.count("refused_by_compile");
        }
        Tv::Bad { kind, what, detail } => {
            let culprits = localise(e, &r0);
            let sig = if culprits.is_empty() { format!("C02:{}:composite", kind) } else { format!("C02:{}:{}", kind, culprits.join("+")) };
            let mut d = detail;
            d.push("expression", J::s(render_default(e).unwrap_or_else(|| format!("{:?}", e))));
            d.push("tree", J::s(format!("{:?}", e)));
            rep.violation(&sig, &what, case, d);
        }
    }
}

pub fn run(ctx: &Ctx, rep: &mut Report) {
    // stream kinds: every supported test kind x comparison form x unit, and every action kind, alone
    let n_kind = ctx.pick(40, 4000) * (SUPPORTED_TESTS + SUPPORTED_ACTIONS) as u64;
    par_cases(ctx, "kinds", n_kind, rep, |i, rep| {
        let mut r = Rng::for_case(ctx.seed, "kinds", i);
        let k = (i as usize) % (SUPPORTED_TESTS + SUPPORTED_ACTIONS);
        let e = if k < SUPPORTED_TESTS { t(gen_test_kind(k, &mut r)) } else { act(gen_action_kind(k - SUPPORTED_TESTS, &mut r)) };
        check_tree(&e, &format!("kinds:{}", i), &mut r, rep, 6);
    });
    // stream fields: every supported format directive and escape alone and in pairs
    let n_fields = ctx.pick(300, 60_000);
    par_cases(ctx, "fields", n_fields, rep, |i, rep| {
        let mut r = Rng::for_case(ctx.seed, "fields", i);
        let a = FormatElement::Field(field_by_index((i as usize) % SUPPORTED_FIELDS, &mut r));
        let mut fmt = vec![a];
        match (i / SUPPORTED_FIELDS as u64) % 4 {
            0 => {}
            1 => fmt.push(FormatElement::Special(special_by_index(r.usize(10), &mut r))),
            2 => fmt.insert(0, FormatElement::Literal("k=".into())),
            _ => fmt.push(FormatElement::Field(field_by_index(r.usize(SUPPORTED_FIELDS), &mut r))),
        }
        let e = if r.chance(1, 2) { act(Action::PrintFormatted(fmt)) } else { act(Action::FilePrintFormatted("o".into(), fmt)) };
        check_tree(&e, &format!("fields:{}", i), &mut r, rep, 6);
    });
    // stream tree: random trees through the constructors
    let n_tree = ctx.pick(3000, 1_200_000);
    par_cases(ctx, "tree", n_tree, rep, |i, rep| {
        let mut r = Rng::for_case(ctx.seed, "tree", i);
        let leaves = 1 + r.usize(7);
        let e = gen_tree(&mut r, leaves, &mut |r| gen_leaf(r, 30));
        check_tree(&e, &format!("tree:{}", i), &mut r, rep, 8);
    });
    // stream shapes: every operator shape of up to three leaves, leaves half tests half actions
    let n_shapes = ctx.pick(2400, 240_000);
    par_cases(ctx, "shapes", n_shapes, rep, |i, rep| {
        let mut r = Rng::for_case(ctx.seed, "shapes", i);
        let mut leaf = |r: &mut Rng| match r.below(4) {
            0 => t(Test::True),
            1 => t(Test::False),
            2 => gen_leaf(r, 100),
            _ => gen_leaf(r, 0),
        };
        let ops: [fn(Expression, Expression) -> Expression; 3] = [and, or, list];
        let (a, b, c) = (leaf(&mut r), leaf(&mut r), leaf(&mut r));
        let o1 = ops[(i % 3) as usize];
        let o2 = ops[((i / 3) % 3) as usize];
        let e = match (i / 9) % 8 {
            0 => o1(a, b),
            1 => o1(not(a), b),
            2 => o1(a, not(b)),
            3 => not(o1(a, b)),
            4 => o2(o1(a, b), c),
            5 => o2(a, o1(b, c)),
            6 => o2(not(o1(a, b)), c),
            _ => o2(a, not(o1(b, c))),
        };
        // every eighth shape carries explicit Precedence nodes (the parser never returns them, the public
        // constructors allow them)
        let e = if (i / 72) % 8 == 0 { prec(or(prec(e.clone()), prec(t(Test::False)))) } else { e };
        check_tree(&e, &format!("shapes:{}", i), &mut r, rep, 4);
    });
    // stream shared: trees in which one Rc sub-tree occurs in several places (Expression is Clone)
    let n_shared = ctx.pick(1200, 120_000);
    par_cases(ctx, "shared", n_shared, rep, |i, rep| {
        let mut r = Rng::for_case(ctx.seed, "shared", i);
        let leaves = 1 + r.usize(3);
        let inner = gen_tree(&mut r, leaves + 1, &mut |r| gen_leaf(r, 50));
        let ops: [fn(Expression, Expression) -> Expression; 3] = [and, or, list];
        let twice = ops[(i % 3) as usize](inner.clone(), inner.clone());
        let e = match (i / 3) % 4 {
            0 => twice,
            1 => ops[r.usize(3)](twice.clone(), twice),
            2 => ops[r.usize(3)](not(inner.clone()), twice),
            _ => ops[r.usize(3)](twice, gen_leaf(&mut r, 50)),
        };
        check_tree(&e, &format!("shared:{}", i), &mut r, rep, 3);
    });
    // stream related: the leaves of one tree come from a pool of one to three base leaves and leaves
    // *related* to them (equal-valued copies, neighbouring constants, the other comparison form, the other
    // case rule, the same destination with another terminator): relations between two constants of one
    // expression are what folding, merging and caching optimisations key on
    let n_related = ctx.pick(1500, 300_000);
    par_cases(ctx, "related", n_related, rep, |i, rep| {
        let mut r = Rng::for_case(ctx.seed, "related", i);
        let nbase = 1 + r.usize(3);
        let base: Vec<Expression> = (0..nbase).map(|_| gen_leaf(&mut r, 30)).collect();
        let leaves = 2 + r.usize(6);
        let e = gen_tree(&mut r, leaves, &mut |r| {
            let b = &base[r.usize(base.len())];
            if r.chance(1, 3) {
                b.clone()
            } else {
                related_leaf(b, r)
            }
        });
        rep.count("related_constant_trees");
        check_tree(&e, &format!("related:{}", i), &mut r, rep, 4);
    });
    // stream pairs: two comparisons of the same field side by side, constants from the field's boundary set
    // or a few units apart, same or different units (the shape range / window peepholes rewrite)
    let n_pairs = ctx.pick(1500, 400_000);
    par_cases(ctx, "pairs", n_pairs, rep, |i, rep| {
        let mut r = Rng::for_case(ctx.seed, "pairs", i);
        let e = pair_case(&mut r, false);
        rep.count("same_field_pairs");
        check_tree(&e, &format!("pairs:{}", i), &mut r, rep, 3);
    });
    // stream heavy: many matchers / printers so that identifiers and frame tags go past one digit
    let n_heavy = ctx.pick(600, 40_000);
    par_cases(ctx, "heavy", n_heavy, rep, |i, rep| {
        let mut r = Rng::for_case(ctx.seed, "heavy", i);
        let e = crate::monitors::c15::gen_resource_heavy(&mut r, i % 4 == 0, false);
        check_tree(&e, &format!("heavy:{}", i), &mut r, rep, 4);
    });
    // stream text: the same through the text route
    let n_text = ctx.pick(500, 200_000);
    par_cases(ctx, "text", n_text, rep, |i, rep| {
        let mut r = Rng::for_case(ctx.seed, "text", i);
        let leaves = 1 + r.usize(5);
        let e = gen_tree(&mut r, leaves, &mut |r| gen_leaf(r, 30));
        let text = match render_default(&e) {
            Some(t) => t,
            None => return,
        };
        match parse_g(&text) {
            Ok(Ok((_, parsed))) => check_tree(&parsed, &format!("text:{}", i), &mut r, rep, 6),
            _ => rep.count("text_route_not_parsed"), // C05's subject
        }
    });
    let programs = rep.get("programs");
    rep.extra.push(("programs".into(), J::Int(programs as i128)));
    let dc = rep.get("disagreements_checked");
    rep.extra.push(("disagreements_checked".into(), J::Int(dc as i128)));
    if ctx.only.is_none() {
        let t_true = rep.sets.get("test_kind_seen_true").map(|s| s.len()).unwrap_or(0);
        let t_false = rep.sets.get("test_kind_seen_false").map(|s| s.len()).unwrap_or(0);
        let a_act = rep.sets.get("action_kind_seen_acting").map(|s| s.len()).unwrap_or(0);
        // 23 distinct test variants (three time kinds, True never false, False never true)
        rep.floor("every supported test kind seen true as a bare leaf (>= 22 variants)", t_true >= 22);
        rep.floor("every supported test kind seen false as a bare leaf (>= 22 variants)", t_false >= 22);
        rep.floor("every supported action kind seen acting as a bare leaf (8)", a_act >= 8);
        rep.floor("programs executed", programs > 100);
        rep.floor("most generated expressions compiled (refusals are C12's subject)", rep.get("refused_by_compile") * 2 < rep.evaluations.max(1));
    }
}
