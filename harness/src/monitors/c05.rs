//! C05: every primary and its argument language is recognised exactly (vocabulary table vs parse).

use crate::cmp::{compare, Cmp};
use crate::json::J;
use crate::report::{par_cases, Ctx, Report};
use crate::rng::Rng;
use crate::spec::{arity, Lang, VOCAB};

const WORDS: &[&str] = &[
    "foo", "a.b", "*.txt", "x-y", "-o", "!", ",", "'a b'", "\"q r\"", "a'b", "caf\u{e9}", "-name", "-true", "0", "f", "a/b/c", "[a-z]*", "x=y", "%p", "a\\b", "~", "{}", "+5",
    // backslashes are ordinary characters in every quoting style ("returned with no processing")
    "\"a\\\\b\"", "'a\\\\b'", "a\\\\b", "\"x\\\"", "'x\\'", "\"\\n\"", "\"\\\\\"", "\"a\\'b\"", "'$HOME'", "\"$x\"", "\"`x`\"",
];

/// a generated word: 1-6 characters over an alphabet of awkward ones, in a quoting style that can carry it
fn gen_word(r: &mut Rng) -> String {
    if !r.chance(1, 3) {
        return r.pick(WORDS).to_string();
    }
    let alpha = ['a', 'b', '\\', '\\', '"', '\'', ' ', '%', '~', '*', '\u{e9}', '-', '$', '`', '{', '}', '@', '/', '.', 'i', ':', '0', 'n', '\u{a0}', '\u{3000}', '\u{2028}', '\u{b}', '\u{c}', '\u{85}', '\u{2009}', '\u{1b}', '\u{200b}', '\u{feff}', '\u{301}'];
    let n = 1 + r.usize(6);
    let s: String = (0..n).map(|_| alpha[r.usize(alpha.len())]).collect();
    match crate::gen::word(&s, r.below(3) as u8) {
        Some(w) if !w.starts_with('-') && !w.starts_with('(') && !w.starts_with('!') && !w.starts_with(',') => w,
        _ => r.pick(WORDS).to_string(),
    }
}
const FORMATS: &[&str] = &[
    "%p", "'%p\\n'", "\"%p %s\\n\"", "'a b %U'", "x", "%%", "'%{fid}:%{projid}'", "'%A@,%C@,%T@'", "'%AH %TY'", "\\n", "'\\101\\t'", "'%{xattr:user}'", "'lit\\\\%m'", "%d", "'%y%Y'", "'\\c'",
    "'\\f'", "'%h/%f'", "'\\012x'", "'\\000'", "'a\\011b'", "'\\0'", "'\\07z'", "'%{stripe-count}-%{stripe-size}-%{mirror-count}'",
];

pub fn member_args(lang: Lang, r: &mut Rng) -> Vec<String> {
    let sign = |r: &mut Rng| ["", "+", "-"][r.usize(3)].to_string();
    let zeros = |r: &mut Rng| "0".repeat(if r.chance(1, 4) { 1 + r.usize(3) } else { 0 });
    match lang {
        Lang::None => vec![],
        Lang::Word => vec![gen_word(r)],
        Lang::Word2 => vec![gen_word(r), gen_word(r)],
        Lang::CountU32 => {
            let v = match r.below(5) {
                0 => 0,
                1 => u32::MAX as u64,
                2 => r.below(10),
                _ => r.below(1 << 32),
            };
            vec![format!("{}{}{}", sign(r), zeros(r), v)]
        }
        Lang::CountU64 => {
            let v = match r.below(5) {
                0 => 0,
                1 => u64::MAX,
                2 => r.below(10),
                _ => r.next(),
            };
            vec![format!("{}{}{}", sign(r), zeros(r), v)]
        }
        Lang::PlainU32 => {
            let v = match r.below(4) {
                0 => 0,
                1 => u32::MAX as u64,
                _ => r.below(100),
            };
            vec![format!("{}{}", zeros(r), v)]
        }
        Lang::Size => {
            let units = ["", "b", "c", "w", "k", "M", "G", "T"];
            let u = r.usize(8);
            let mult: u64 = [512, 512, 1, 2, 1 << 10, 1 << 20, 1 << 30, 1 << 40][u];
            let max = u64::MAX / mult;
            let v = match r.below(5) {
                0 => 0,
                1 => max,
                2 => r.below(10),
                _ => r.next() % max.saturating_add(1).max(1),
            };
            vec![format!("{}{}{}{}", sign(r), zeros(r), v, units[u])]
        }
        Lang::TimeMin | Lang::TimeDay => {
            let units = ["", "s", "m", "h", "d"];
            let v = match r.below(5) {
                0 => 0,
                1 => u64::MAX,
                2 => r.below(10),
                _ => r.below(100000),
            };
            vec![format!("{}{}{}{}", sign(r), zeros(r), v, units[r.usize(5)])]
        }
        Lang::Types => {
            let n = 1 + r.usize(4);
            vec![(0..n).map(|_| ["b", "c", "d", "p", "f", "l", "s"][r.usize(7)]).collect::<Vec<_>>().join(",")]
        }
        Lang::Perm => {
            let pfx = ["", "-", "/"][r.usize(3)];
            let body = match r.below(4) {
                0 => format!("{:03o}", r.below(0o1000)),
                1 => format!("{:04o}", r.below(0o10000)),
                2 => format!("{}{}{}", ["u", "g", "o", "a", "ug", "go", "ugo", "au"][r.usize(8)], ["+", "=", "-"][r.usize(3)], ["r", "w", "x", "rw", "rwx", "xr"][r.usize(6)]),
                _ => format!("{}+{},{}={}", ["u", "g", "o", "a"][r.usize(4)], ["r", "w", "x"][r.usize(3)], ["u", "g", "o", "a"][r.usize(4)], ["r", "w", "x", "rw"][r.usize(4)]),
            };
            let s = format!("{}{}", pfx, body);
            vec![match r.below(4) {
                0 => format!("'{}'", s),
                _ => s,
            }]
        }
        Lang::Format => vec![gen_fmt_word(r)],
        Lang::WordFormat => vec![gen_word(r), gen_fmt_word(r)],
    }
}

/// half from the fixed pool, half rendered from generated element lists (every directive, every
/// escape incl. \\0NN octal escapes)
fn gen_fmt_word(r: &mut Rng) -> String {
    if r.chance(1, 2) {
        return r.pick(FORMATS).to_string();
    }
    let f = crate::gen::gen_format(r, false);
    match crate::gen::format_text(&f).and_then(|t| crate::gen::word(&t, 1)) {
        Some(w) => w,
        None => r.pick(FORMATS).to_string(),
    }
}

fn corrupt(s: &str, r: &mut Rng) -> String {
    let junk = ["x", "9", "-true", ",", ".", "k", "d", "@", "+", "-", "/", "=", "q", "%", "\\", " ", "\t", ")", "(", "'", "\""];
    // multi-character junk: unit words and number notations people write (one character is not enough to
    // tell `10M` + `iB` from `10M`)
    let words = ["iB", "B", "KiB", "MiB", "kB", "MB", "GB", ".5", ".0", ",5", "_000", "e3", "0x", "min", "sec", "hr", "days", "ms", "ib", "Ki", "bytes", "u+x", "=r", ",u", "rwx", "\\n", "%p", "%%", "\\0", "00", "000", "1e", "LL", "--", "++"];
    let pick_word = r.chance(1, 3);
    let j = if pick_word { r.pick(&words) } else { r.pick(&junk) };
    let cs: Vec<char> = s.chars().collect();
    match r.below(6) {
        0 => format!("{}{}", s, j),
        1 => format!("{}{}", j, s),
        2 if !cs.is_empty() => {
            let p = r.usize(cs.len() + 1);
            let mut o: String = cs[..p].iter().collect();
            o.push_str(j);
            o.extend(cs[p..].iter());
            o
        }
        3 if cs.len() > 1 => {
            let p = r.usize(cs.len());
            let mut o: String = cs[..p].iter().collect();
            o.extend(cs[p + 1..].iter());
            o
        }
        4 => String::new(),
        _ => format!("{}{}", s, s),
    }
}

fn in_context(p: &str, ctx: u64) -> String {
    match ctx {
        0 => p.to_string(),
        1 => format!("-true {}", p),
        2 => format!("( {} ) -o -false", p),
        3 => format!("! {}", p),
        4 => format!("{} -print", p),
        5 => format!("({})", p),
        _ => format!("-false , {} -a -true", p),
    }
}

fn run_case(text: &str, kw: &str, case: &str, nontrivial: bool, rep: &mut Report) {
    rep.evaluations += 1;
    match compare(text) {
        Cmp::AgreeOk(_, _, tree) => {
            rep.count("members_accepted");
            if crate::spec::keyword(kw).is_some() {
                rep.distinct("keywords_as_member", kw);
            }
            if nontrivial {
                rep.nontrivial(text);
            }
            if rep.get("sampled_ok") < 4 && nontrivial {
                rep.count("sampled_ok");
                rep.sample(J::obj(vec![("input", J::s(text)), ("verdict", J::s("member: tree equals the vocabulary table's node")), ("tree", J::s(format!("{:?}", tree).split_whitespace().collect::<Vec<_>>().join(" ")))]));
            }
        }
        Cmp::AgreeErr(msg, _) => {
            rep.count("nonmembers_refused");
            if crate::spec::keyword(kw).is_some() {
                rep.distinct("keywords_as_nonmember", kw);
            }
            if nontrivial {
                rep.nontrivial(text);
            }
            if rep.get("sampled_err") < 4 && nontrivial {
                rep.count("sampled_err");
                rep.sample(J::obj(vec![("input", J::s(text)), ("verdict", J::s("non-member: refused")), ("error", J::s(msg))]));
            }
        }
        Cmp::Skip(why) => {
            rep.skipped_unspecified += 1;
            rep.count(&format!("skip:{}", why));
        }
        Cmp::Bad { kind, what, detail } => {
            let sig = if kind.contains(':') || kind == "accepts-unknown-word" || kind == "accepts-nonsentence" { format!("C05:{}", kind) } else { format!("C05:{}:{}", kind, kw) };
            rep.violation(&sig, &what, case, detail);
        }
    }
}

pub fn run(ctx: &Ctx, rep: &mut Report) {
    let nkw = VOCAB.len() as u64;
    // members and corrupted members, per keyword, in 7 contexts
    let per_kw = ctx.pick(150, 300_000);
    par_cases(ctx, "args", nkw * per_kw, rep, |i, rep| {
        let kw = &VOCAB[(i % nkw) as usize];
        let mut r = Rng::for_case(ctx.seed, "args", i);
        let mut args = member_args(kw.lang, &mut r);
        let mode = r.below(5);
        if mode >= 2 && !args.is_empty() {
            let k = r.usize(args.len());
            args[k] = corrupt(&args[k], &mut r);
        }
        if mode == 4 && !args.is_empty() {
            args.pop(); // argument dropped
        }
        let sep = [" ", "  ", " "][r.usize(3)];
        let mut p = kw.word.to_string();
        // one case in eight: a separator is missing (words glued, also between two quoted arguments)
        let glue_at = if r.chance(1, 8) && !args.is_empty() { r.usize(args.len()) } else { usize::MAX };
        for (ai, a) in args.iter().enumerate() {
            if ai != glue_at {
                p.push_str(sep);
            }
            p.push_str(a);
        }
        let text = in_context(&p, r.below(7));
        let nontrivial = args.iter().any(|a| !a.is_empty());
        run_case(&text, kw.word, &format!("args:{}", i), nontrivial, rep);
    });
    // keyword-level corruptions: extended, truncated, glued, prefix families
    let per_kw2 = ctx.pick(40, 40_000);
    par_cases(ctx, "words", nkw * per_kw2, rep, |i, rep| {
        let kw = &VOCAB[(i % nkw) as usize];
        let mut r = Rng::for_case(ctx.seed, "words", i);
        let other = &VOCAB[r.usize(VOCAB.len())];
        let w = match r.below(7) {
            0 => format!("{}x", kw.word),
            1 => kw.word[..kw.word.len() - 1].to_string(),
            2 => format!("{}{}", kw.word, other.word),
            3 => format!("{}0", kw.word),
            4 => format!("{}-", kw.word),
            5 => kw.word[1..].to_string(),
            _ => format!("{}f", kw.word),
        };
        let mut p = w;
        let mut args = member_args(kw.lang, &mut r);
        if r.chance(1, 3) {
            args = member_args(other.lang, &mut r);
        }
        for a in &args {
            p.push(' ');
            p.push_str(a);
        }
        let text = in_context(&p, r.below(7));
        run_case(&text, kw.word, &format!("words:{}", i), true, rep);
    });
    // glued primaries: no word boundary between a complete primary and the next word
    let per_kw3 = ctx.pick(30, 30_000);
    par_cases(ctx, "glued", nkw * per_kw3, rep, |i, rep| {
        let kw = &VOCAB[(i % nkw) as usize];
        let mut r = Rng::for_case(ctx.seed, "glued", i);
        let args = member_args(kw.lang, &mut r);
        let mut p = kw.word.to_string();
        for a in &args {
            p.push(' ');
            p.push_str(a);
        }
        let tail = ["-true", "-print", "-false", "-o -true", "-name x", "-a", "-depth", "!", "-print0", ",-true", ",-print", ", -true", ",x", ";-true", "=-true", "(-true)", "!-true", "\t-true", ")"][r.usize(19)];
        let text = in_context(&format!("{}{}", p, tail), r.below(5));
        run_case(&text, kw.word, &format!("glued:{}", i), true, rep);
    });
    // every printable character at each position of each argument mini-language
    let n_sweep = crate::corpus::CHARSWEEP_TEMPLATES.len() as u64 * 96;
    par_cases(ctx, "charsweep", n_sweep, rep, |i, rep| {
        let text = crate::corpus::input(ctx.seed, "charsweep", i);
        let kw = text.split(' ').next().unwrap_or("").to_string();
        run_case(&text, &kw, &format!("charsweep:{}", i), true, rep);
    });
    // two-argument keywords: every quoting combination of the two arguments, with and without the blank
    par_cases(ctx, "pairs", 2 * 3 * 3 * 2 * 7, rep, |i, rep| {
        let kw = ["-xattr-match", "-fprintf"][(i % 2) as usize];
        let q = |s: &str, k: u64| match k {
            0 => s.to_string(),
            1 => format!("'{}'", s),
            _ => format!("\"{}\"", s),
        };
        let a = q("ab", (i / 2) % 3);
        let b = q(if kw == "-fprintf" { "%p" } else { "cd" }, (i / 6) % 3);
        let sep = if (i / 18) % 2 == 0 { " " } else { "" };
        let text = in_context(&format!("{} {}{}{}", kw, a, sep, b), i / 36);
        run_case(&text, kw, &format!("pairs:{}", i), true, rep);
    });
    // keyword alone with its argument(s) missing
    par_cases(ctx, "missing", nkw * 7, rep, |i, rep| {
        let kw = &VOCAB[(i % nkw) as usize];
        if arity(kw.lang) == 0 {
            return;
        }
        let text = in_context(kw.word, i / nkw);
        run_case(&text, kw.word, &format!("missing:{}", i), false, rep);
    });
    if ctx.only.is_none() {
        let m = rep.sets.get("keywords_as_member").map(|s| s.len()).unwrap_or(0);
        rep.floor("every keyword of the vocabulary seen accepted as a member (>= 50 of 55)", m >= 50);
        rep.floor("non-members refused observed", rep.get("nonmembers_refused") > 100);
    }
}
