//! C20: compile once, render for any device - only the device path varies.

use crate::gen::*;
use crate::json::J;
use crate::policy::{read_program, run_policy};
use crate::rec::FileRecord;
use crate::report::{par_cases, Ctx, Report};
use crate::rng::Rng;
use crate::sexp::Sx;
use crate::sut::{guard, io_map_sorted, opts_default};
use lipe_find_parser::compile;

fn paths(r: &mut Rng) -> String {
    let normalisable = ["/dev/mdt0/", "//", "a/b/", "./dev", "../x", " /dev/x", "/dev/x ", "", ".", "/DEV/MDT0", "/dev//mdt0", "~/mdt0", "%2fdev", "{}", "{mdt}", "{policy}", "{options}", "{definitions}", "{0}", "${mdt}", "%s"];
    if r.chance(1, 5) {
        return normalisable[r.usize(normalisable.len())].to_string();
    }
    let hostile = ["a\"b", "back\\slash", "/dev/with space", "x)y", "semi;colon", "line\nbreak", "caf\u{e9}/\u{1f600}", "\"", "\\", "tail\\", "~a~%", "#|c|#", "(lipe-scan)", "'q", "a\tb"];
    match r.below(6) {
        0 => "/dev/mapper/mdt0".into(),
        1 => format!("/dev/mdt{}", r.below(100)),
        2 | 3 => hostile[r.usize(hostile.len())].to_string(),
        4 => {
            let n = 1 + r.usize(12);
            (0..n).map(|_| *r.pick(&['"', '\\', 'a', ' ', ')', ';', '\n', '~', '(', '#'])).collect()
        }
        _ => "p".repeat(if r.chance(1, 10) { 65536 } else { 300 }),
    }
}

/// Leaves (paths) at which two trees differ; None if the shapes differ.
fn diff_leaves(a: &Sx, b: &Sx, out: &mut Vec<(Sx, Sx)>) -> bool {
    match (a, b) {
        (Sx::List(x), Sx::List(y)) => {
            if x.len() != y.len() {
                return false;
            }
            x.iter().zip(y.iter()).all(|(p, q)| diff_leaves(p, q, out))
        }
        (Sx::List(_), _) | (_, Sx::List(_)) => false,
        (p, q) => {
            if p != q {
                out.push((p.clone(), q.clone()));
            }
            true
        }
    }
}

pub fn run(ctx: &Ctx, rep: &mut Report) {
    let n = ctx.pick(1000, 8_000_000);
    par_cases(ctx, "history", n, rep, |i, rep| {
        let mut r = Rng::for_case(ctx.seed, "history", i);
        let case = format!("history:{}", i);
        let leaves = 1 + r.usize(5);
        // no time tests: byte-identity is the claim here
        let e = gen_tree(&mut r, leaves, &mut |r| loop {
            let l = gen_leaf(r, 30);
            if !matches!(l, lipe_find_parser::ast::Expression::Test(lipe_find_parser::ast::Test::AccessTime(_) | lipe_find_parser::ast::Test::ChangeTime(_) | lipe_find_parser::ast::Test::ModifyTime(_))) {
                break l;
            }
        });
        // a quarter of the expressions carry a user string that spells a placeholder of some templating
        // scheme (generated family): rendering must not touch it
        let e = if i % 4 == 0 {
            let fam = placeholder_family();
            let f = &fam[r.usize(fam.len())];
            let s = if r.chance(1, 2) { f.clone() } else { format!("backup{}0003*", f) };
            use lipe_find_parser::ast::{Action, Test};
            let extra = match r.below(5) {
                0 => t(Test::Name(s)),
                1 => t(Test::InsensitivePath(s)),
                2 => t(Test::Pool(s)),
                3 => t(Test::XattrMatch("user.k".into(), s)),
                _ => act(Action::FilePrint(s)),
            };
            rep.count("expressions_with_placeholder_spelling");
            if r.chance(1, 2) { and(extra, e) } else { or(e, extra) }
        } else {
            e
        };
        rep.evaluations += 1;
        let p1 = paths(&mut r);
        let mut p2 = paths(&mut r);
        if p2 == p1 {
            p2.push('2');
        }
        let hist = guard(|| {
            let c = match compile(&e, &opts_default()) {
                Ok(c) => c,
                Err(_) => return None,
            };
            let m0 = io_map_sorted(&c.io_map());
            let a1 = c.scheme(&p1);
            let m1 = io_map_sorted(&c.io_map());
            let b1 = c.scheme(&p2);
            let a2 = c.scheme(&p1);
            let m2 = io_map_sorted(&c.io_map());
            let b2 = c.scheme(&p2);
            let a3 = c.scheme(&p1);
            Some((m0, a1, m1, b1, a2, m2, b2, a3, c.io_map()))
        });
        let (m0, a1, m1, b1, a2, m2, b2, a3, iomap) = match hist {
            Err(p) => {
                rep.violation(&format!("C20:{}", p.sig()), &format!("render history panicked: {}", p.0), &case, J::Null);
                return;
            }
            Ok(None) => {
                rep.count("not_compiled");
                return;
            }
            Ok(Some(h)) => h,
        };
        let hostile = p1.contains('"') || p1.contains('\\') || p2.contains('"') || p2.contains('\\');
        if a1 != a2 || a2 != a3 || b1 != b2 {
            rep.violation("C20:not-repeatable", &format!("rendering twice for the same path gave different programs (path {:?})", if a1 != a2 || a2 != a3 { &p1 } else { &p2 }), &case, J::obj(vec![("first", J::s(&a1)), ("again", J::s(&a2))]));
            return;
        }
        if m0 != m1 || m1 != m2 {
            rep.violation("C20:table-changed", &format!("io_map() changed across renderings: {} / {} / {}", m0, m1, m2), &case, J::Null);
            return;
        }
        // both texts read; they differ in exactly one leaf, a string, decoding to the two paths
        let fa = read_program(&a1);
        let fb = read_program(&b1);
        let (fa, fb) = match (fa, fb) {
            (Ok(x), Ok(y)) => (x, y),
            (ra, rb) => {
                let which = if ra.is_err() { &p1 } else { &p2 };
                let class = if which.contains('"') { "quote" } else if which.contains('\\') { "backslash" } else { "other" };
                rep.violation(&format!("C20:unreadable:{}", class), &format!("program rendered for device path {:?} does not read back: {}", which, ra.err().or(rb.err()).map(|e| e.to_string()).unwrap_or_default()), &case, J::obj(vec![("path", J::s(which))]));
                return;
            }
        };
        let mut diffs = vec![];
        let same_shape = diff_leaves(&Sx::List(fa.clone()), &Sx::List(fb.clone()), &mut diffs);
        if !same_shape || diffs.len() != 1 {
            rep.violation("C20:differs-elsewhere", &format!("renderings for {:?} and {:?} differ in {} places (shape equal: {})", p1, p2, diffs.len(), same_shape), &case, J::obj(vec![("diffs", J::s(format!("{:?}", diffs.iter().take(4).collect::<Vec<_>>())))]));
            return;
        }
        match &diffs[0] {
            (Sx::Str(x), Sx::Str(y)) if *x == p1 && *y == p2 => {}
            other => {
                rep.violation("C20:wrong-literal", &format!("the differing leaf does not decode to the two paths {:?} / {:?}: {:?}", p1, p2, other), &case, J::Null);
                return;
            }
        }
        // the device string received by lipe-scan at run time
        match run_policy(&a1, iomap.as_ref(), vec![FileRecord::base(0)]) {
            Ok(run) => {
                if run.scan.device != p1 {
                    rep.violation("C20:scan-device", &format!("lipe-scan received device {:?}, rendered for {:?}", run.scan.device, p1), &case, J::Null);
                    return;
                }
                rep.count("scan_device_observed");
            }
            Err(_) => rep.count("policy_not_run"),
        }
        rep.count("histories_ok");
        if hostile {
            rep.nontrivial(&format!("{:?}|{}|{}", e, p1, p2));
            rep.count("hostile_path_pairs");
        }
        if (rep.samples.is_empty() && p1.len() < 200 && p2.len() < 200) || (rep.samples.len() < 5 && hostile && p1.len() < 40 && p2.len() < 40) {
            rep.sample(J::obj(vec![("paths", J::Arr(vec![J::s(&p1), J::s(&p2)])), ("renders", J::Int(5)), ("verdict", J::s("identical for same path; one differing string leaf decoding to the paths; io_map unchanged"))]));
        }
    });
    // time tests: the embedded second belongs to the compile call, not to the rendering
    par_cases(ctx, "clock", ctx.pick(4, 32), rep, |i, rep| {
        rep.evaluations += 1;
        let case = format!("clock:{}", i);
        let ts = crate::gen::mk_time(i % 4, 3 + i);
        let e = crate::gen::t(lipe_find_parser::ast::Test::ModifyTime(lipe_find_parser::ast::Comparison::GreaterThan(ts)));
        let r = guard(|| {
            let t0 = crate::sut::now_secs();
            let c = compile(&e, &opts_default()).ok()?;
            let t1 = crate::sut::now_secs();
            let first = c.scheme("/dev/a");
            std::thread::sleep(std::time::Duration::from_millis(1200));
            let second = c.scheme("/dev/a");
            Some((t0, t1, first, second))
        });
        match r {
            Ok(Some((t0, t1, first, second))) => {
                if first != second {
                    rep.violation("C20:not-repeatable:clock", "rendering the same compiled time test twice, 1.2 s apart, gave different programs", &case, J::obj(vec![("first", J::s(&first)), ("second", J::s(&second))]));
                    return;
                }
                let toks: Vec<i128> = crate::monitors::c15::int_tokens(&second).into_iter().filter(|v| *v >= 1_000_000_000).collect();
                // (that the second lies inside the compile window is C15's sentence; checked there with a delayed render)
                let _ = (toks, t0, t1);
                rep.count("clock_histories_ok");
            }
            Ok(None) => {}
            Err(p) => rep.violation(&format!("C20:{}", p.sig()), &p.0, &case, J::Null),
        }
    });
    if ctx.only.is_none() {
        rep.floor("histories completed", rep.get("histories_ok") + rep.violation_counts.values().sum::<u64>() > 100);
    }
}
