//! C14: format strings are segmented exactly as the printf mini-language says.

use crate::json::J;
use crate::report::{par_cases, Ctx, Report};
use crate::rng::Rng;
use crate::spec::{fmtscan, Fmt};
use crate::sut::parse_g;
use lipe_find_parser::ast::*;

const ALPHA: [char; 16] = ['%', '\\', '{', '}', ':', 'A', 'p', 'n', 'q', 'f', 'c', '0', '1', '7', '8', '@'];
const WIDE: &str = "%\\{}:ApnqfcTCabdDFgGhHiklmMPsStuUyYZ0123456789@-xrtv. ,;~\"#(xattr:user)fidprojidmirror-countstripe-size";

fn elements_of(text: &str) -> Result<Result<Vec<FormatElement>, String>, String> {
    match parse_g(text) {
        Err(p) => Err(p.0),
        Ok(Err(e)) => Ok(Err(e)),
        Ok(Ok((_, Expression::Action(Action::PrintFormatted(v))))) => Ok(Ok(v)),
        Ok(Ok((_, Expression::Action(Action::FilePrintFormatted(_, v))))) => Ok(Ok(v)),
        Ok(Ok((_, other))) => Ok(Err(format!("<<not a printf action: {:?}>>", other))),
    }
}

fn structural_ok(v: &[FormatElement]) -> Option<String> {
    for (i, e) in v.iter().enumerate() {
        if let FormatElement::Literal(s) = e {
            if s.is_empty() {
                return Some("empty literal".into());
            }
            if i > 0 && matches!(v[i - 1], FormatElement::Literal(_)) {
                return Some("two adjacent literals".into());
            }
        }
    }
    None
}

fn check(s: &str, case: &str, rep: &mut Report, enumerated: bool) {
    rep.evaluations += 1;
    if s.is_empty() || s.contains('\'') {
        return;
    }
    let via_fprintf = s.len() % 10 == 3;
    let text = if via_fprintf { format!("-fprintf out '{}'", s) } else { format!("-printf '{}'", s) };
    let nontrivial = {
        let cs: Vec<char> = s.chars().collect();
        cs.iter().enumerate().any(|(i, c)| (*c == '%' || *c == '\\') && i + 1 < cs.len())
    };
    if nontrivial {
        if enumerated {
            rep.add("nontrivial_by_construction", 1);
        } else {
            rep.nontrivial(s);
        }
    }
    let got = match elements_of(&text) {
        Err(p) => {
            let sig = crate::sut::Panic(p.clone()).sig();
            rep.violation(&format!("C14:{}", sig), &format!("parse panicked on {:?}: {}", text, p), case, J::obj(vec![("input", J::s(&text))]));
            return;
        }
        Ok(g) => g,
    };
    if let Ok(v) = &got {
        if let Some(why) = structural_ok(v) {
            rep.violation("C14:structure", &format!("{}: {:?} -> {:?}", why, s, v), case, J::obj(vec![("input", J::s(&text))]));
            return;
        }
    }
    let want = fmtscan(s);
    let verdict = match (&want, &got) {
        (Fmt::Unspecified(w), _) => {
            rep.skipped_unspecified += 1;
            rep.count(&format!("skip:{}", w));
            return;
        }
        (Fmt::Err, Err(_)) => {
            rep.count("rejected");
            None
        }
        (Fmt::Err, Ok(v)) => Some(("accepts-bad-directive", format!("undocumented % directive accepted: {:?} -> {:?}", s, v))),
        (Fmt::Ok(w), Ok(v)) => {
            rep.count("accepted");
            if w == v {
                None
            } else {
                Some((classify(s, w, v), format!("segmentation differs for {:?}: expected {:?}, got {:?}", s, w, v)))
            }
        }
        (Fmt::Either(a, b), Ok(v)) => {
            rep.count("accepted_two_readings");
            if a == v || b == v {
                None
            } else {
                Some(("wrong-elements", format!("segmentation differs for {:?}: expected {:?} or {:?}, got {:?}", s, a, b, v)))
            }
        }
        (Fmt::Ok(_), Err(e)) | (Fmt::Either(_, _), Err(e)) => Some(("rejects-valid-format", format!("valid format {:?} refused: {}", s, e))),
    };
    match verdict {
        None => {
            if rep.samples.is_empty() || (nontrivial && rep.samples.len() < 6 && rep.evaluations % 97 == 0) {
                rep.sample(J::obj(vec![("format", J::s(s)), ("elements", J::s(format!("{:?}", got)))]));
            }
        }
        Some((kind, what)) => rep.violation(&format!("C14:{}", kind), &what, case, J::obj(vec![("input", J::s(&text))])),
    }
}

/// finer signature for the commonest failure modes
fn classify(s: &str, want: &[FormatElement], got: &[FormatElement]) -> &'static str {
    let has = |v: &[FormatElement], f: &dyn Fn(&FormatElement) -> bool| v.iter().any(|e| f(e));
    if has(want, &|e| matches!(e, FormatElement::Special(FormatSpecial::Form))) && !has(got, &|e| matches!(e, FormatElement::Special(FormatSpecial::Form))) {
        return "escape-f-not-recognised";
    }
    let max3 = |v: &[FormatElement]| v.iter().all(|e| !matches!(e, FormatElement::Special(FormatSpecial::Ascii(x)) if *x > 0o777));
    if !max3(got) || (s.contains('\\') && want.len() != got.len() && has(got, &|e| matches!(e, FormatElement::Special(FormatSpecial::Ascii(_))))) {
        return "octal-escape-too-long";
    }
    "wrong-elements"
}

pub fn run(ctx: &Ctx, rep: &mut Report) {
    let max_len: u32 = if ctx.tier_thorough { 6 } else { 4 };
    let mut total = 0u64;
    for l in 1..=max_len {
        total += 16u64.pow(l);
    }
    par_cases(ctx, "enum", total, rep, |i, rep| {
        let mut idx = i;
        let mut len = 1u32;
        while idx >= 16u64.pow(len) {
            idx -= 16u64.pow(len);
            len += 1;
        }
        let mut s = String::new();
        let mut cs = vec![];
        for _ in 0..len {
            cs.push(ALPHA[(idx % 16) as usize]);
            idx /= 16;
        }
        cs.reverse();
        s.extend(cs);
        check(&s, &format!("enum:{}", i), rep, true);
    });
    rep.exhaustive = Some(true);
    rep.extra.push(("exhaustive_bound".into(), J::s(format!("all strings of length 1..{} over {:?} ({} strings)", max_len, ALPHA.iter().collect::<String>(), total))));
    // every documented directive and escape individually and in ordered pairs
    let singles: Vec<String> = {
        let mut v: Vec<String> = "%abcdDfFgGhHiklmMnpPsStuUyYZ".chars().map(|c| format!("%{}", c)).collect();
        for k in ["A@", "AH", "C@", "CY", "T@", "Td", "{fid}", "{projid}", "{mirror-count}", "{stripe-count}", "{stripe-size}", "{xattr:user}"] {
            v.push(format!("%{}", k));
        }
        for e in ["a", "b", "c", "f", "n", "r", "t", "v", "0", "\\", "101", "012", "177", "q", "8"] {
            v.push(format!("\\{}", e));
        }
        v.push("lit".into());
        v.push("7".into());
        v
    };
    let ns = singles.len() as u64;
    par_cases(ctx, "pairs", ns * ns + ns, rep, |i, rep| {
        let s = if i < ns { singles[i as usize].clone() } else { format!("{}{}", singles[((i - ns) / ns) as usize], singles[((i - ns) % ns) as usize]) };
        check(&s, &format!("pairs:{}", i), rep, false);
    });
    let wide: Vec<char> = WIDE.chars().collect();
    let n_rand = ctx.pick(30_000, 20_000_000);
    par_cases(ctx, "random", n_rand, rep, |i, rep| {
        let mut r = Rng::for_case(ctx.seed, "random", i);
        let len = 1 + r.usize(60);
        let mut s = String::new();
        for _ in 0..len {
            match r.below(10) {
                0 => s.push('%'),
                1 => s.push('\\'),
                2 => s.push(*r.pick(&['0', '1', '2', '7', '8'])),
                _ => s.push(*r.pick(&wide)),
            }
        }
        check(&s, &format!("random:{}", i), rep, false);
    });
    // very long literal runs (4-70 k characters, ASCII and multi-byte) around a few directives: a maximal
    // run is ONE literal whatever its length (chunked scanning shows as adjacent literals)
    let n_long = ctx.pick(2, 400) + 6;
    par_cases(ctx, "longrun", n_long, rep, |i, rep| {
        let mut r = Rng::for_case(ctx.seed, "longrun", i);
        let unit = ["a", "xy ", "\u{e9}", "0123456789", "w\u{4e2d}"][r.usize(5)];
        let len = [4095usize, 4096, 4097, 8192, 8193, 16384, 65535, 65536, 65537, 70000][r.usize(10)] + r.usize(3);
        let mut run = String::new();
        while run.chars().count() < len {
            run.push_str(unit);
        }
        let s = match r.below(4) {
            0 => run,
            1 => format!("%p{}", run),
            2 => format!("{}%f\\n", run),
            _ => format!("{}%s{}", run, run),
        };
        rep.count("very_long_literal_runs");
        check(&s, &format!("longrun:{}", i), rep, false);
    });
    // literal runs with multi-byte characters (2, 3 and 4 bytes, combining marks, exotic blanks, controls)
    // before, between and after directives and escapes: byte offsets and character counts differ there
    let mb = ['\u{e9}', '\u{df}', '\u{4e2d}', '\u{1f600}', '\u{301}', '\u{a0}', '\u{3000}', '\u{2028}', '\u{1}', '\u{7f}', '\u{feff}', '\t', '\n', 'a', ' ', '"', '~'];
    let pieces = ["%p", "%f", "%%", "%s", "%{fid}", "%A@", "%TY", "%{xattr:user}", "\\n", "\\t", "\\\\", "\\101", "\\0", "\\q", "%m", "%d", "\\c", "%", "\\"];
    let n_mb = ctx.pick(4_000, 2_000_000);
    par_cases(ctx, "multibyte", n_mb, rep, |i, rep| {
        let mut r = Rng::for_case(ctx.seed, "multibyte", i);
        let k = 1 + r.usize(5);
        let mut s = String::new();
        for j in 0..k {
            let run = if j == 0 { 1 + r.usize(4) } else { r.usize(4) };
            for _ in 0..run {
                s.push(*r.pick(&mb));
            }
            if r.chance(5, 6) {
                s.push_str(*r.pick(&pieces));
            }
        }
        if r.chance(1, 2) {
            s.push(*r.pick(&mb));
        }
        rep.count("multibyte_strings");
        check(&s, &format!("multibyte:{}", i), rep, false);
    });
    if ctx.only.is_none() {
        rep.floor("accepted and rejected formats both observed", rep.get("accepted") > 100 && rep.get("rejected") > 100);
    }
}
