//! C03: totality - every input gets an answer, never a crash or hang (in-process part: panics are
//! caught and reported; aborts / hangs are detected and bisected by the driver process).

use crate::corpus;
use crate::json::J;
use crate::report::{par_cases, Ctx, Report};
use crate::sut::guard;
use lipe_find_parser::{compile, parse};

/// One canonical record of everything the API returns for a text (shared with C17).
pub fn exercise(text: &str) -> Result<String, crate::sut::Panic> {
    guard(|| {
        let t0 = crate::sut::now_secs();
        match parse(text) {
            Err(e) => format!("ParseErr({})", e),
            Ok((opts, tree)) => {
                let head = format!("{:?}|{:?}", opts, tree);
                match compile(&tree, &opts) {
                    Err(e) => format!("{}|CompileErr({})", head, e),
                    Ok(c) => {
                        let a = c.scheme("/dev/mdt0");
                        let b = c.scheme("dev \"2\"\\");
                        let m = crate::sut::io_map_sorted(&c.io_map());
                        let t1 = crate::sut::now_secs();
                        format!("{}|Ok|{}|{}|{}", head, normalise_clock(&a, t0, t1), normalise_clock(&b, t0, t1), m)
                    }
                }
            }
        }
    })
}

/// Closed integer arithmetic written out in the program text - `(+ 1791000000 200122)`, `(* 24 60 60)`,
/// `(expt 2 20)`, radix literals `#x6a..` / `#o..` / `#b..` - replaced by its decimal value (string literals
/// are left alone). The clock monitors look at *values*: a constant spelled as a sum is still that constant.
pub fn fold_arith(text: &str) -> String {
    let cs: Vec<char> = text.chars().collect();
    fn ws(cs: &[char], mut i: usize) -> usize {
        while i < cs.len() && cs[i].is_whitespace() {
            i += 1;
        }
        i
    }
    fn delim(cs: &[char], i: usize) -> bool {
        i >= cs.len() || cs[i].is_whitespace() || cs[i] == ')' || cs[i] == '('
    }
    fn int(cs: &[char], i: usize) -> Option<(i128, usize)> {
        let mut j = i;
        let mut radix = 10;
        if j + 1 < cs.len() && cs[j] == '#' {
            radix = match cs[j + 1] {
                'x' | 'X' => 16,
                'o' | 'O' => 8,
                'b' | 'B' => 2,
                'd' | 'D' => 10,
                _ => return None,
            };
            j += 2;
        }
        let neg = j < cs.len() && cs[j] == '-';
        if neg || (j < cs.len() && cs[j] == '+') {
            j += 1;
        }
        let st = j;
        while j < cs.len() && cs[j].is_digit(radix) {
            j += 1;
        }
        if j == st || !delim(cs, j) {
            return None;
        }
        let v = i128::from_str_radix(&cs[st..j].iter().collect::<String>(), radix).ok()?;
        Some((if neg { -v } else { v }, j))
    }
    fn arith(cs: &[char], i: usize) -> Option<(i128, usize)> {
        if i >= cs.len() || cs[i] != '(' {
            return None;
        }
        let mut j = ws(cs, i + 1);
        let st = j;
        while j < cs.len() && !delim(cs, j) {
            j += 1;
        }
        let op: String = cs[st..j].iter().collect();
        if !matches!(op.as_str(), "+" | "-" | "*" | "expt") {
            return None;
        }
        let mut args = vec![];
        loop {
            j = ws(cs, j);
            if j >= cs.len() {
                return None;
            }
            if cs[j] == ')' {
                j += 1;
                break;
            }
            let (v, e) = if cs[j] == '(' { arith(cs, j)? } else { int(cs, j)? };
            args.push(v);
            j = e;
        }
        if args.is_empty() {
            return None;
        }
        let v = match op.as_str() {
            "+" => args.iter().try_fold(0i128, |a, b| a.checked_add(*b))?,
            "*" => args.iter().try_fold(1i128, |a, b| a.checked_mul(*b))?,
            "-" => {
                if args.len() == 1 {
                    args[0].checked_neg()?
                } else {
                    args[1..].iter().try_fold(args[0], |a, b| a.checked_sub(*b))?
                }
            }
            _ => {
                if args.len() != 2 || args[1] < 0 || args[1] > 126 {
                    return None;
                }
                args[0].checked_pow(args[1] as u32)?
            }
        };
        Some((v, j))
    }
    let mut out = String::with_capacity(text.len());
    let mut i = 0;
    let mut in_str = false;
    while i < cs.len() {
        let c = cs[i];
        if in_str {
            out.push(c);
            if c == '\\' && i + 1 < cs.len() {
                out.push(cs[i + 1]);
                i += 2;
                continue;
            }
            if c == '"' {
                in_str = false;
            }
            i += 1;
            continue;
        }
        if c == '"' {
            in_str = true;
            out.push(c);
            i += 1;
            continue;
        }
        if c == '(' {
            if let Some((v, e)) = arith(&cs, i) {
                out.push_str(&v.to_string());
                i = e;
                continue;
            }
        }
        if c == '#' && (i == 0 || delim(&cs, i - 1) || cs[i - 1] == '(') && i + 1 < cs.len() && matches!(cs[i + 1], 'x' | 'X' | 'o' | 'O' | 'b' | 'B' | 'd' | 'D') {
            if let Some((v, e)) = int(&cs, i) {
                out.push_str(&v.to_string());
                i = e;
                continue;
            }
        }
        out.push(c);
        i += 1;
    }
    out
}

/// Replace integer constants lying in the clock window by a placeholder (after folding closed arithmetic).
pub fn normalise_clock(text: &str, t0: i128, t1: i128) -> String {
    let folded = fold_arith(text);
    let text = folded.as_str();
    let mut out = String::with_capacity(text.len());
    let b = text.as_bytes();
    let mut i = 0;
    while i < b.len() {
        if b[i].is_ascii_digit() && (i == 0 || !(b[i - 1].is_ascii_alphanumeric() || b[i - 1] == b':')) {
            let mut j = i;
            while j < b.len() && b[j].is_ascii_digit() {
                j += 1;
            }
            let tok = &text[i..j];
            if tok.len() >= 10 && tok.len() <= 11 {
                if let Ok(v) = tok.parse::<i128>() {
                    if v >= t0 - 2 && v <= t1 + 2 {
                        out.push_str("<now>");
                        i = j;
                        continue;
                    }
                }
            }
            out.push_str(tok);
            i = j;
        } else {
            // copy one UTF-8 character
            let ch_len = text[i..].chars().next().map(|c| c.len_utf8()).unwrap_or(1);
            out.push_str(&text[i..i + ch_len]);
            i += ch_len;
        }
    }
    out
}

pub fn run(ctx: &Ctx, rep: &mut Report) {
    for stream in corpus::STREAMS {
        let n = corpus::count(stream, ctx.tier_thorough, ctx.scale);
        par_cases(ctx, stream, n, rep, |i, rep| {
            let text = corpus::input(ctx.seed, stream, i);
            rep.evaluations += 1;
            match exercise(&text) {
                Ok(rec) => {
                    let kind = if rec.starts_with("ParseErr") {
                        "outcome_parse_err"
                    } else if rec.contains("|CompileErr(") {
                        "outcome_compile_err"
                    } else {
                        "outcome_ok"
                    };
                    rep.count(kind);
                    // reached an argument sub-parser or the compiler: not rejected at the first character
                    if kind != "outcome_parse_err" || !rec.contains("Unexpected token") {
                        rep.nontrivial(&text);
                    }
                    if rep.samples.is_empty() || (rep.samples.len() < 6 && i % 1013 == 7) {
                        rep.sample(J::obj(vec![("input", J::s(&text)), ("outcome", J::s(rec.chars().take(160).collect::<String>()))]));
                    }
                }
                Err(p) => {
                    rep.violation(&format!("C03:{}", p.sig()), &format!("panic on input {:?}: {}", text, p.0), &format!("{}:{}", stream, i), J::obj(vec![("input", J::s(&text)), ("panic", J::s(&p.0))]));
                }
            }
        });
    }
    // compile / scheme / io_map are total on their own input too: hand-built trees (public constructors),
    // including unsupported constructs, over-range sizes and degenerate values parse() never returns
    let n_trees = crate::monitors::c17::tree_count(ctx.tier_thorough, ctx.scale);
    par_cases(ctx, "trees", n_trees, rep, |i, rep| {
        let e = crate::monitors::c17::tree_case(ctx.seed, i);
        rep.evaluations += 1;
        let r = guard(|| {
            let o = crate::sut::opts_for(i);
            match compile(&e, &o) {
                Err(err) => format!("CompileErr({})", err),
                Ok(c) => {
                    let a = c.scheme("/dev/mdt0");
                    let m = crate::sut::io_map_sorted(&c.io_map());
                    format!("Ok {} {}", a.len(), m.len())
                }
            }
        });
        match r {
            Ok(rec) => rep.count(if rec.starts_with("CompileErr") { "tree_compile_err" } else { "tree_ok" }),
            Err(p) => rep.violation(&format!("C03:{}", p.sig()), &format!("panic on the hand-built tree {:?}: {}", e, p.0), &format!("trees:{}", i), J::obj(vec![("tree", J::s(format!("{:?}", e))), ("panic", J::s(&p.0))])),
        }
    });
    if ctx.only.is_none() {
        rep.floor("all three outcome kinds observed", rep.get("outcome_parse_err") > 100 && rep.get("outcome_compile_err") > 10 && rep.get("outcome_ok") > 100);
    }
}

#[cfg(test)]
mod tests {
    use super::*;
    #[test]
    fn folds_closed_arithmetic_only() {
        assert_eq!(fold_arith("(quotient (- (+ 1791000000 200122) (mtime)) (* 24 60 60))"), "(quotient (- 1791200122 (mtime)) 86400)");
        assert_eq!(fold_arith("(= (uid) #x10) \"(+ 1 2) #x10\" (expt 2 20) (+ a 1) (- 5)"), "(= (uid) 16) \"(+ 1 2) #x10\" 1048576 (+ a 1) -5");
        assert_eq!(fold_arith("#\\x1e (logand (mode) #o170000)"), "#\\x1e (logand (mode) 61440)");
        assert_eq!(normalise_clock("(- (+ 1791000000 200122) (mtime))", 1791200121, 1791200123), "(- <now> (mtime))");
    }
}
