//! C03: totality - every input gets an answer, never a crash or hang (in-process part: panics are
//! caught and reported; aborts / hangs are detected and bisected by the driver process).

use crate::corpus;
use crate::json::J;
use crate::report::{par_cases, Ctx, Report};
use crate::sut::guard;
use lipe_find_parser::{compile, parse};

/// One canonical record of everything the API returns for a text (shared with C17).
pub fn exercise(text: &str) -> Result<String, crate::sut::Panic> {
    guard(|| {
        let t0 = crate::sut::now_secs();
        match parse(text) {
            Err(e) => format!("ParseErr({})", e),
            Ok((opts, tree)) => {
                let head = format!("{:?}|{:?}", opts, tree);
                match compile(&tree, &opts) {
                    Err(e) => format!("{}|CompileErr({})", head, e),
                    Ok(c) => {
                        let a = c.scheme("/dev/mdt0");
                        let b = c.scheme("dev \"2\"\\");
                        let m = crate::sut::io_map_sorted(&c.io_map());
                        let t1 = crate::sut::now_secs();
                        format!("{}|Ok|{}|{}|{}", head, normalise_clock(&a, t0, t1), normalise_clock(&b, t0, t1), m)
                    }
                }
            }
        }
    })
}

/// Replace integer tokens lying in the clock window by a placeholder.
pub fn normalise_clock(text: &str, t0: i128, t1: i128) -> String {
    let mut out = String::with_capacity(text.len());
    let b = text.as_bytes();
    let mut i = 0;
    while i < b.len() {
        if b[i].is_ascii_digit() && (i == 0 || !(b[i - 1].is_ascii_alphanumeric() || b[i - 1] == b':')) {
            let mut j = i;
            while j < b.len() && b[j].is_ascii_digit() {
                j += 1;
            }
            let tok = &text[i..j];
            if tok.len() >= 10 && tok.len() <= 11 {
                if let Ok(v) = tok.parse::<i128>() {
                    if v >= t0 - 2 && v <= t1 + 2 {
                        out.push_str("<now>");
                        i = j;
                        continue;
                    }
                }
            }
            out.push_str(tok);
            i = j;
        } else {
            // copy one UTF-8 character
            let ch_len = text[i..].chars().next().map(|c| c.len_utf8()).unwrap_or(1);
            out.push_str(&text[i..i + ch_len]);
            i += ch_len;
        }
    }
    out
}

pub fn run(ctx: &Ctx, rep: &mut Report) {
    for stream in corpus::STREAMS {
        let n = corpus::count(stream, ctx.tier_thorough, ctx.scale);
        par_cases(ctx, stream, n, rep, |i, rep| {
            let text = corpus::input(ctx.seed, stream, i);
            rep.evaluations += 1;
            match exercise(&text) {
                Ok(rec) => {
                    let kind = if rec.starts_with("ParseErr") {
                        "outcome_parse_err"
                    } else if rec.contains("|CompileErr(") {
                        "outcome_compile_err"
                    } else {
                        "outcome_ok"
                    };
                    rep.count(kind);
                    // reached an argument sub-parser or the compiler: not rejected at the first character
                    if kind != "outcome_parse_err" || !rec.contains("Unexpected token") {
                        rep.nontrivial(&text);
                    }
                    if rep.samples.is_empty() || (rep.samples.len() < 6 && i % 1013 == 7) {
                        rep.sample(J::obj(vec![("input", J::s(&text)), ("outcome", J::s(rec.chars().take(160).collect::<String>()))]));
                    }
                }
                Err(p) => {
                    rep.violation(&format!("C03:{}", p.sig()), &format!("panic on input {:?}: {}", text, p.0), &format!("{}:{}", stream, i), J::obj(vec![("input", J::s(&text)), ("panic", J::s(&p.0))]));
                }
            }
        });
    }
    // compile / scheme / io_map are total on their own input too: hand-built trees (public constructors),
    // including unsupported constructs, over-range sizes and degenerate values parse() never returns
    let n_trees = crate::monitors::c17::tree_count(ctx.tier_thorough, ctx.scale);
    par_cases(ctx, "trees", n_trees, rep, |i, rep| {
        let e = crate::monitors::c17::tree_case(ctx.seed, i);
        rep.evaluations += 1;
        let r = guard(|| {
            let o = crate::sut::opts_for(i);
            match compile(&e, &o) {
                Err(err) => format!("CompileErr({})", err),
                Ok(c) => {
                    let a = c.scheme("/dev/mdt0");
                    let m = crate::sut::io_map_sorted(&c.io_map());
                    format!("Ok {} {}", a.len(), m.len())
                }
            }
        });
        match r {
            Ok(rec) => rep.count(if rec.starts_with("CompileErr") { "tree_compile_err" } else { "tree_ok" }),
            Err(p) => rep.violation(&format!("C03:{}", p.sig()), &format!("panic on the hand-built tree {:?}: {}", e, p.0), &format!("trees:{}", i), J::obj(vec![("tree", J::s(format!("{:?}", e))), ("panic", J::s(&p.0))])),
        }
    });
    if ctx.only.is_none() {
        rep.floor("all three outcome kinds observed", rep.get("outcome_parse_err") > 100 && rep.get("outcome_compile_err") > 10 && rep.get("outcome_ok") > 100);
    }
}
