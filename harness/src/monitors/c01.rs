//! C01: operator grammar. parse() accepts exactly the sentences and returns the unique tree.

use crate::cmp::{compare, Cmp};
use crate::gen::{and, list, not, or, t};
use crate::json::J;
use crate::report::{par_cases, Ctx, Report};
use crate::rng::Rng;
use crate::spec::{grammar, is_sentence_table, Tok};
use lipe_find_parser::ast::*;

const SYMS: [&str; 11] = ["(", ")", "!", ",", "-a", "-and", "-o", "-or", "-true", "-name x", "-print"];

fn tok_of(i: usize) -> Tok {
    match i {
        0 => Tok::LParen,
        1 => Tok::RParen,
        2 => Tok::Not,
        3 => Tok::Comma,
        4 | 5 => Tok::And,
        6 | 7 => Tok::Or,
        8 => Tok::Prim(t(Test::True)),
        9 => Tok::Prim(t(Test::Name("x".into()))),
        _ => Tok::Prim(Expression::Action(Action::Print)),
    }
}

fn levels_used(seq: &[usize]) -> usize {
    let mut l = [false; 4];
    for (i, s) in seq.iter().enumerate() {
        match s {
            2 => l[0] = true,
            3 => l[3] = true,
            4 | 5 => l[1] = true,
            6 | 7 => l[2] = true,
            _ => {}
        }
        // implicit AND: operand start directly after operand end
        if i > 0 && matches!(seq[i - 1], 1 | 8 | 9 | 10) && matches!(s, 0 | 2 | 8 | 9 | 10) {
            l[1] = true;
        }
    }
    l.iter().filter(|b| **b).count()
}

fn check_seq(seq: &[usize], case: &str, rep: &mut Report, exhaustive_stream: bool) {
    rep.evaluations += 1;
    let toks: Vec<Tok> = seq.iter().map(|i| tok_of(*i)).collect();
    let text: String = seq.iter().map(|i| SYMS[*i]).collect::<Vec<_>>().join(" ");
    // harness self-check: the two spec-side recognisers agree
    let g = grammar(&toks);
    if g.is_some() != is_sentence_table(&toks) {
        rep.inconclusive.push(format!("harness self-check failed: recognisers disagree on {:?}", text));
        return;
    }
    let sentence = g.is_some();
    if sentence {
        rep.count("sentences");
    } else {
        rep.count("non_sentences");
    }
    let nontrivial = if sentence {
        levels_used(seq) >= 2
    } else {
        // longest proper prefix that is a sentence is non-empty ("stops early" shape)
        (1..toks.len()).any(|k| grammar(&toks[..k]).is_some())
    };
    if nontrivial {
        if exhaustive_stream {
            rep.add("nontrivial_by_construction", 1);
        } else {
            rep.nontrivial(&text);
        }
    }
    match compare(&text) {
        Cmp::AgreeOk(_, _, tree) => {
            if nontrivial && rep.samples.len() < 3 {
                rep.sample(J::obj(vec![("input", J::s(&text)), ("verdict", J::s("sentence, tree equal to reference")), ("tree", J::s(format!("{:?}", tree).replace('\n', " ").split_whitespace().collect::<Vec<_>>().join(" ")))]));
            }
        }
        Cmp::AgreeErr(msg, _) => {
            if nontrivial && rep.get("sampled_err") < 3 {
                rep.count("sampled_err");
                rep.sample(J::obj(vec![("input", J::s(&text)), ("verdict", J::s("non-sentence, refused")), ("error", J::s(msg))]));
            }
        }
        Cmp::Skip(why) => {
            rep.skipped_unspecified += 1;
            rep.count(&format!("skip:{}", why));
        }
        Cmp::Bad { kind, what, mut detail } => {
            detail.push("sentence", J::Bool(sentence));
            rep.violation(&format!("C01:{}", kind), &what, case, detail);
        }
    }
}

fn seq_of_index(mut idx: u64, max_len: usize) -> Option<Vec<usize>> {
    // sequences ordered by length, then lexicographic
    let mut len = 1;
    let mut block = 11u64;
    loop {
        if len > max_len {
            return None;
        }
        if idx < block {
            break;
        }
        idx -= block;
        len += 1;
        block *= 11;
    }
    let mut v = vec![0usize; len];
    for k in (0..len).rev() {
        v[k] = (idx % 11) as usize;
        idx /= 11;
    }
    Some(v)
}

fn gen_sentence(r: &mut Rng, depth: usize) -> Vec<usize> {
    // random well-formed expression as a symbol sequence
    if depth == 0 || r.chance(1, 3) {
        return vec![8 + r.usize(3)];
    }
    match r.below(6) {
        0 => {
            let mut v = vec![2];
            v.extend(gen_sentence(r, depth - 1));
            v
        }
        1 => {
            let mut v = vec![0];
            v.extend(gen_sentence(r, depth - 1));
            v.push(1);
            v
        }
        k => {
            let mut v = gen_sentence(r, depth - 1);
            match k {
                2 => {}
                3 => v.push(4 + r.usize(2)),
                4 => v.push(6 + r.usize(2)),
                _ => v.push(3),
            }
            v.extend(gen_sentence(r, depth - 1));
            v
        }
    }
}

/// Random tree -> sequence with minimal or redundant parentheses (route (c) of the design).
fn tree_to_seq(e: &Expression, redundant: bool, r: &mut Rng, out: &mut Vec<usize>) {
    fn level(e: &Expression) -> u8 {
        match e {
            Expression::Operator(op) => match op.as_ref() {
                Operator::List(_, _) => 0,
                Operator::Or(_, _) => 1,
                Operator::And(_, _) => 2,
                Operator::Not(_) => 3,
                Operator::Precedence(_) => 4,
            },
            _ => 4,
        }
    }
    let sub = |x: &Expression, need: u8, r: &mut Rng, out: &mut Vec<usize>| {
        let extra = if redundant { r.below(3) } else { 0 };
        let paren = level(x) < need;
        let n = extra + if paren { 1 } else { 0 };
        for _ in 0..n {
            out.push(0);
        }
        tree_to_seq(x, redundant, r, out);
        for _ in 0..n {
            out.push(1);
        }
    };
    match e {
        Expression::Test(Test::True) => out.push(8),
        Expression::Test(_) => out.push(9),
        Expression::Action(_) => out.push(10),
        Expression::Operator(op) => match op.as_ref() {
            Operator::Not(x) => {
                out.push(2);
                sub(x, 3, r, out);
            }
            Operator::And(a, b) => {
                sub(a, 2, r, out);
                match r.below(3) {
                    0 => {}
                    1 => out.push(4),
                    _ => out.push(5),
                }
                sub(b, 3, r, out);
            }
            Operator::Or(a, b) => {
                sub(a, 1, r, out);
                out.push(6 + r.usize(2));
                sub(b, 2, r, out);
            }
            Operator::List(a, b) => {
                sub(a, 0, r, out);
                out.push(3);
                sub(b, 1, r, out);
            }
            Operator::Precedence(x) => tree_to_seq(x, redundant, r, out),
        },
        _ => out.push(8),
    }
}

fn gen_tree3(r: &mut Rng, depth: usize) -> Expression {
    if depth == 0 || r.chance(1, 4) {
        return match r.below(3) {
            0 => t(Test::True),
            1 => t(Test::Name("x".into())),
            _ => Expression::Action(Action::Print),
        };
    }
    match r.below(5) {
        0 => not(gen_tree3(r, depth - 1)),
        1 | 2 => and(gen_tree3(r, depth - 1), gen_tree3(r, depth - 1)),
        3 => or(gen_tree3(r, depth - 1), gen_tree3(r, depth - 1)),
        _ => list(gen_tree3(r, depth - 1), gen_tree3(r, depth - 1)),
    }
}

pub fn run(ctx: &Ctx, rep: &mut Report) {
    let max_len = if ctx.tier_thorough { 8 } else { 6 };
    let max_len = if ctx.scale < 1.0 { max_len - 1 } else { max_len };
    let mut total = 0u64;
    let mut b = 11u64;
    for _ in 0..max_len {
        total += b;
        b *= 11;
    }
    par_cases(ctx, "enum", total, rep, |i, rep| {
        let seq = seq_of_index(i, max_len).unwrap();
        check_seq(&seq, &format!("enum:{}", i), rep, true);
    });
    rep.exhaustive = Some(true);
    rep.extra.push(("exhaustive_bound".into(), J::s(format!("all sequences of 1..{} symbols over the 11-symbol alphabet ({} sequences)", max_len, total))));
    // mutated sentences, length 9-40
    let n_mut = ctx.pick(20_000, 2_000_000);
    par_cases(ctx, "mutated", n_mut, rep, |i, rep| {
        let mut r = Rng::for_case(ctx.seed, "mutated", i);
        let mut seq = gen_sentence(&mut r, 5);
        while seq.len() < 9 {
            let more = gen_sentence(&mut r, 4);
            seq.push(6);
            seq.extend(more);
        }
        seq.truncate(40);
        let muts = r.below(3);
        for _ in 0..muts {
            let p = r.usize(seq.len());
            match r.below(4) {
                0 => seq.insert(p, r.usize(11)),
                1 => {
                    if seq.len() > 1 {
                        seq.remove(p);
                    }
                }
                2 => seq[p] = r.usize(11),
                _ => {
                    let q = r.usize(seq.len());
                    seq.swap(p, q);
                }
            }
        }
        check_seq(&seq, &format!("mutated:{}", i), rep, false);
    });
    // random well-formed trees, minimal and redundant parentheses: the tree must come back
    let n_tree = ctx.pick(10_000, 500_000);
    par_cases(ctx, "trees", n_tree, rep, |i, rep| {
        let mut r = Rng::for_case(ctx.seed, "trees", i);
        let d = 1 + r.usize(7);
        let e = gen_tree3(&mut r, d);
        let mut seq = vec![];
        tree_to_seq(&e, i % 2 == 1, &mut r, &mut seq);
        if seq.len() > 400 {
            return;
        }
        // the tree itself is the expectation here (renderer + reference parser must also agree)
        let toks: Vec<Tok> = seq.iter().map(|i| tok_of(*i)).collect();
        match grammar(&toks) {
            Some(g) if g == canon(&e) => {}
            _ => {
                rep.inconclusive.push("harness self-check failed: rendered tree does not re-parse spec-side".into());
                return;
            }
        }
        check_seq(&seq, &format!("trees:{}", i), rep, false);
    });
    // long flat chains: 60-650 symbols of sentences joined by a random mix of implicit AND, -a/-and, -o/-or
    // and ',' (inputs stay below the 4 KiB bound): folds over long repeat lists, any per-level capacity
    let n_long = ctx.pick(60, 20_000);
    par_cases(ctx, "long", n_long, rep, |i, rep| {
        let mut r = Rng::for_case(ctx.seed, "long", i);
        let target = 60 + r.usize(590);
        let mut seq = gen_sentence(&mut r, 3);
        while seq.len() < target {
            match r.below(8) {
                0 | 1 | 2 => {}              // implicit AND
                3 => seq.push(4),            // -a
                4 => seq.push(5),            // -and
                5 => seq.push(6),            // -o
                6 => seq.push(7),            // -or
                _ => seq.push(3),            // ,
            }
            let d = 1 + r.usize(3);
            let more = gen_sentence(&mut r, d);
            seq.extend(more);
        }
        if r.chance(1, 4) {
            // one symbol of damage somewhere far from the start
            let p = seq.len() / 2 + r.usize(seq.len() / 2);
            seq[p] = r.usize(11);
        }
        rep.count("long_chains");
        check_seq(&seq, &format!("long:{}", i), rep, false);
    });
    // many groups: a flat chain of 100-900 small parenthesised or negated groups ( P ), ! ( P ), ! P, ( P , P ):
    // a per-group resource (a nesting counter that is not given back, a fixed-size stack) runs out
    let n_groups = ctx.pick(3, 300) + 5;
    par_cases(ctx, "groups", n_groups, rep, |i, rep| {
        let mut r = Rng::for_case(ctx.seed, "groups", i);
        let k = 100 + r.usize(800);
        let mut seq: Vec<usize> = vec![];
        let style = i % 4; // 0: only "! ( P )", 1: only "( P )", 2/3: mixed
        for g in 0..k {
            if g > 0 {
                match r.below(6) {
                    0 => seq.push(6),
                    1 => seq.push(4),
                    2 if style >= 2 => seq.push(3),
                    _ => {}
                }
            }
            let p = [8, 9, 10][r.usize(3)];
            let kind = match style {
                0 => 0,
                1 => 1,
                _ => r.below(5),
            };
            match kind {
                0 => seq.extend([2, 0, p, 1]),
                1 => seq.extend([0, p, 1]),
                2 => seq.extend([2, p]),
                3 => seq.extend([0, p, 3, 8, 1]),
                _ => seq.extend([0, 0, p, 1, 1]),
            }
        }
        rep.count("many_group_chains");
        check_seq(&seq, &format!("groups:{}", i), rep, false);
    });
    // very long chains: 1100-6000 operands (tens of KiB; C01 has no length bound), mostly implicit AND with
    // an occasional operator, an action as the very last operand: any silent cap on a repetition shows as a
    // truncated tree or a wrongly accepted tail
    let n_vlong = ctx.pick(1, 150) + 5;
    par_cases(ctx, "verylong", n_vlong, rep, |i, rep| {
        let mut r = Rng::for_case(ctx.seed, "verylong", i);
        let target = 1100 + r.usize(4900);
        let mut seq: Vec<usize> = vec![];
        // half of the cases are one unbroken implicit-AND chain; the others carry a rare -o / , / -a
        let sparse = if i % 2 == 0 { u64::MAX } else { 700 };
        while seq.len() < target {
            match if sparse == u64::MAX { 99 } else { r.below(sparse) } {
                0 => seq.push(6),
                1 => seq.push(3),
                2 => seq.push(4),
                _ => {}
            }
            seq.push([8, 9, 9, 8, 10][r.usize(5)]);
        }
        seq.push(10);
        if i % 3 == 2 {
            // a stray word far beyond the first thousand operands: the whole input must be refused
            let p = seq.len() - 1 - r.usize(40);
            seq[p] = 1;
        }
        rep.count("very_long_chains");
        check_seq(&seq, &format!("verylong:{}", i), rep, false);
    });
    let extra = rep.get("nontrivial_by_construction");
    rep.extra.push(("distinct_nontrivial_enumerated".into(), J::Int(extra as i128)));
    if ctx.only.is_none() {
        rep.floor("sentences and non-sentences both observed", rep.get("sentences") > 100 && rep.get("non_sentences") > 100);
    }
}

/// name tests all carry "x" and actions are Print in this alphabet
fn canon(e: &Expression) -> Expression {
    e.clone()
}
