//! C18: argument errors name the offending primary and word (message grammar monitor).

use crate::json::J;
use crate::report::{par_cases, Ctx, Report};
use crate::rng::Rng;
use crate::spec::{self, arity, keyword, Class, Failure, Lang, Spec, VOCAB};
use crate::sut::parse_g;

const PAIRS: [(char, char); 8] =
    [('`', '`'), ('`', '\''), ('\'', '\''), ('"', '"'), ('\u{2018}', '\u{2019}'), ('\u{201c}', '\u{201d}'), ('\u{ab}', '\u{bb}'), ('\u{2039}', '\u{203a}')];

fn quoted_in(msg: &str, word: &str) -> bool {
    PAIRS.iter().any(|(a, b)| msg.contains(&format!("{}{}{}", a, word, b)))
}

/// Quoted span that starts right after (<= 2 characters) an occurrence of the role word, if any.
fn span_after_role(msg: &str, role: &str) -> Vec<String> {
    let mut out = vec![];
    let mut from = 0;
    while let Some(p) = msg[from..].find(role) {
        let start = from + p;
        let end = start + role.len();
        from = end;
        // whole word only
        if start > 0 && msg[..start].chars().last().map_or(false, |c| c.is_alphanumeric()) {
            continue;
        }
        let rest = &msg[end..];
        let lead: String = rest.chars().take_while(|c| *c == ' ' || *c == ':').collect();
        if lead.chars().count() > 2 {
            continue;
        }
        let after = &rest[lead.len()..];
        if let Some(a) = after.chars().next() {
            // nearest closer among the styles that share this opener
            let body = &after[a.len_utf8()..];
            if let Some(e) = PAIRS.iter().filter(|(x, _)| *x == a).filter_map(|(_, b)| body.find(*b)).min() {
                out.push(body[..e].to_string());
            }
        }
    }
    out
}

fn backtick_spans(msg: &str) -> Vec<String> {
    let parts: Vec<&str> = msg.split('`').collect();
    let mut v = vec![];
    let mut i = 1;
    while i + 1 < parts.len() + 0 && i < parts.len() {
        if i + 1 <= parts.len() - 1 {
            v.push(parts[i].to_string());
        }
        i += 2;
    }
    v
}

fn bad_arg_for(lang: Lang, r: &mut Rng) -> Option<String> {
    Some(match lang {
        Lang::CountU32 | Lang::CountU64 | Lang::PlainU32 | Lang::Size | Lang::TimeMin | Lang::TimeDay => r.pick(&["x", "@5", "q9", "k", "#", "abc", "_1", "x'", "q\"", "x'y", "`x", "{}", "x%", "\u{e9}5", "x\\", "xxxxxxxxxxxxxxxxxxxxxxxxxxxxxxxxxxxxxxxx", "@123456789012345678901234567890", "q_a_very_long_offending_word_of_more_than_forty_characters",
            // control, zero-width and other non-printing characters: the word must be quoted as it is in the input
            "x\u{1b}[1m12", "\u{1b}[0m", "q\u{7}", "x\u{1}y", "q\u{7f}", "x\u{85}", "q\u{200b}z", "\u{feff}x", "xe\u{301}", "q\u{a0}r", "x\u{3000}y", "q\u{2028}", "x\u{b}", "q\u{c}k", "x\u{0}y"]).to_string(),
        Lang::Types => r.pick(&["q", "x", "z", "Q", "q'", "x\"z"]).to_string(),
        Lang::Perm => r.pick(&["q", "x+r", "9", "zz", "@"]).to_string(),
        Lang::Format | Lang::WordFormat => r.pick(&["%q", "%!", "%j", "%", "%Q"]).to_string(),
        _ => return None,
    })
}

fn valid_primary(r: &mut Rng) -> &'static str {
    *r.pick(&["-true", "-name x", "-uid 5", "-type f", "-print", "-size +1k", "-false", "-perm 644"])
}

fn class_name(c: Class) -> &'static str {
    match c {
        Class::Test => "test",
        Class::Action => "action",
        Class::Option => "option",
    }
}

fn check(text: &str, case: &str, before: usize, rep: &mut Report) {
    rep.evaluations += 1;
    let (sp, failure) = spec::parse_detail(text);
    let failure = match (sp, failure) {
        (Spec::Err(_), Some(f)) => f,
        (Spec::Unspecified(_), _) => {
            rep.skipped_unspecified += 1;
            return;
        }
        _ => {
            rep.count("generated_input_not_an_argument_error");
            return;
        }
    };
    let msg = match parse_g(text) {
        Err(p) => {
            rep.violation(&format!("C18:{}", p.sig()), &format!("parse panicked on {:?}: {}", text, p.0), case, J::obj(vec![("input", J::s(text))]));
            return;
        }
        Ok(Ok(_)) => {
            rep.count("accepted_instead_of_error"); // C05's subject
            return;
        }
        Ok(Err(m)) => m,
    };
    let detail = || J::obj(vec![("input", J::s(text)), ("message", J::s(&msg))]);
    if msg.trim().is_empty() {
        rep.violation("C18:empty-message", &format!("empty error text for {:?}", text), case, detail());
        return;
    }
    let mut problems: Vec<String> = vec![];
    let mut class = "";
    match &failure {
        Failure::MissingArgument(kw) => {
            class = class_name(keyword(kw).unwrap().class);
            rep.count("missing_argument_messages");
            if !msg.contains(kw) {
                problems.push(format!("missing-argument:{}:keyword-not-named", class));
            }
            if !quoted_in(&msg, "") {
                problems.push(format!("missing-argument:{}:no-empty-quote", class));
            }
        }
        Failure::BadArgument(kw, arg) => {
            class = class_name(keyword(kw).unwrap().class);
            rep.count("bad_argument_messages");
            if !msg.contains(kw) {
                problems.push(format!("bad-argument:{}:keyword-not-named", class));
            }
            if !quoted_in(&msg, arg) {
                problems.push(format!("bad-argument:{}:argument-not-quoted", class));
            }
            // roles: where the message says "argument <quote>" / "test|action|option <quote>", the
            // quoted text must be the argument / the keyword (not the other way round)
            if span_after_role(&msg, "argument").iter().any(|s| s == kw && s != arg) {
                problems.push(format!("bad-argument:{}:keyword-presented-as-argument", class));
            }
            for role in ["test", "action", "option"] {
                if span_after_role(&msg, role).iter().any(|s| s == arg && s != kw) {
                    problems.push(format!("bad-argument:{}:argument-presented-as-keyword", class));
                }
            }
        }
        Failure::UnknownWord(w) => {
            rep.count("unknown_word_messages");
            let extension = VOCAB.iter().any(|k| w.starts_with(k.word)) || ["-a", "-o", "-and", "-or"].iter().any(|k| w.starts_with(k) && w.len() > k.len() && false);
            if extension {
                rep.count("unknown_word_is_keyword_extension");
            } else if !quoted_in(&msg, w) {
                problems.push("unknown-word:not-quoted".to_string());
            }
        }
        Failure::Other(_) | Failure::OutOfRange(_, _) => {
            rep.count("other_failure");
        }
    }
    // every quoted span is empty or occurs in the input ("never quotes text that does not occur in the
    // input": a keyword the message names is itself a word of the input; a *suggested* keyword is not).
    // Checked for the quoting styles that cannot be confused with an apostrophe in prose.
    if !text.contains('`') {
        for span in backtick_spans(&msg) {
            if span.is_empty() || text.contains(&span) {
                continue;
            }
            problems.push(if keyword(&span).is_some() { "quotes-keyword-not-in-input".to_string() } else { "quotes-text-not-in-input".to_string() });
        }
    }
    for (a, b) in &PAIRS[4..] {
        let mut rest = msg.as_str();
        while let Some(p) = rest.find(*a) {
            let body = &rest[p + a.len_utf8()..];
            match body.find(*b) {
                Some(e) => {
                    let span = &body[..e];
                    if !(span.is_empty() || text.contains(span)) {
                        problems.push("quotes-text-not-in-input".to_string());
                    }
                    rest = &body[e + b.len_utf8()..];
                }
                None => break,
            }
        }
    }
    if problems.is_empty() {
        if before > 0 {
            rep.nontrivial(text);
        }
        rep.distinct("message_shapes", &msg.split('`').step_by(2).collect::<Vec<_>>().join("_"));
        if rep.samples.is_empty() || (rep.samples.len() < 6 && before > 0) {
            rep.sample(J::obj(vec![("input", J::s(text)), ("failure", J::s(format!("{:?}", failure))), ("message", J::s(&msg))]));
        }
    } else {
        let _ = class;
        for p in problems {
            rep.violation(&format!("C18:{}", p), &format!("{:?} ({:?}) -> message {:?}", text, failure, msg), case, detail());
        }
    }
}

pub fn run(ctx: &Ctx, rep: &mut Report) {
    let kws: Vec<&spec::Kw> = VOCAB.iter().filter(|k| arity(k.lang) > 0).collect();
    let nk = kws.len() as u64;
    let per = ctx.pick(12 * 12, 12 * 20_000);
    par_cases(ctx, "args", nk * per, rep, |i, rep| {
        let kw = kws[(i % nk) as usize];
        let mut r = Rng::for_case(ctx.seed, "args", i);
        // the failing primary
        let failing = if r.chance(1, 3) {
            // argument missing: at end of input, or before ')'
            if kw.lang == Lang::Word2 || kw.lang == Lang::WordFormat {
                if r.chance(1, 2) {
                    format!("{} w", kw.word)
                } else {
                    kw.word.to_string()
                }
            } else {
                kw.word.to_string()
            }
        } else {
            match bad_arg_for(kw.lang, &mut r) {
                Some(a) => {
                    if kw.lang == Lang::WordFormat {
                        format!("{} f {}", kw.word, a)
                    } else {
                        format!("{} {}", kw.word, a)
                    }
                }
                None => kw.word.to_string(),
            }
        };
        let missing = failing == kw.word || failing.ends_with(" w");
        let before = r.usize(4);
        let mut parts: Vec<String> = vec![];
        for _ in 0..before {
            parts.push(valid_primary(&mut r).to_string());
            if r.chance(1, 4) {
                parts.push(r.pick(&["-o", "-a", ","]).to_string());
            }
        }
        let wrap = r.below(4);
        match wrap {
            0 => parts.push(format!("( {}", failing)),
            1 => parts.push(format!("! {}", failing)),
            _ => parts.push(failing.clone()),
        }
        // something after the failing primary only when its argument is present (otherwise the next
        // word would be taken as the argument)
        if !missing {
            let after = r.usize(3);
            for _ in 0..after {
                parts.push(valid_primary(&mut r).to_string());
            }
            if wrap == 0 {
                parts.push(")".into());
            }
        } else if wrap == 0 {
            // always closed: with an unclosed parenthesis two errors compete and either may be reported
            let _ = r.chance(1, 2);
            parts.push(")".into());
        }
        let text = parts.join(" ");
        check(&text, &format!("args:{}", i), before, rep);
    });
    let n_unknown = ctx.pick(3000, 10_000_000);
    par_cases(ctx, "unknown", n_unknown, rep, |i, rep| {
        let mut r = Rng::for_case(ctx.seed, "unknown", i);
        let w = match r.below(8) {
            6 | 7 => {
                // a mistyped keyword: one character dropped, doubled, replaced or two swapped
                let k: Vec<char> = VOCAB[r.usize(VOCAB.len())].word.chars().collect();
                let p = 1 + r.usize(k.len().saturating_sub(1).max(1));
                let mut v = k.clone();
                match r.below(4) {
                    0 if v.len() > 2 && p < v.len() => {
                        v.remove(p);
                    }
                    1 if p < v.len() => v.insert(p, k[p]),
                    2 if p < v.len() => v[p] = *r.pick(&['q', 'z', 'j', 'e', 'a', 'X']),
                    _ if p + 1 < v.len() => v.swap(p, p + 1),
                    _ => v.push('z'),
                }
                let w: String = v.into_iter().collect();
                if keyword(&w).is_some() || ["-a", "-o", "-and", "-or", "!", ",", "(", ")"].contains(&w.as_str()) {
                    format!("{}q", w)
                } else {
                    w
                }
            }
            0 => format!("-{}", ["bogus", "newer", "xdev", "exec", "delete", "zzz", "Name", "PRINT", "xtype", "lname", "mount", "daystart", "newermt", "wholename", "iwholename", "used", "nmae", "prnt", "ok", "execdir", "fprint1", "printf0"][r.usize(22)]),
            1 => ["bogus", "foo", "x", "print", "name", "123", "a.b"][r.usize(7)].to_string(),
            2 => format!("{}x", VOCAB[r.usize(VOCAB.len())].word),
            3 => format!("--{}", ["name", "print", "help"][r.usize(3)]),
            4 => format!("-{}{}{}", ["q", "z", "y", "j"][r.usize(4)], r.below(100), "w".repeat(r.usize(40))),
            _ => ["+5", "@", "%p", "~", "{}", "=", "caf\u{e9}", "x\u{1b}[1m", "\u{1}", "q\u{7f}z", "z\u{200b}", "\u{feff}-name", "-na\u{301}me", "w\u{a0}w", "\u{3000}", "v\u{b}t", "b\u{7}l"][r.usize(17)].to_string(),
        };
        let before = r.usize(4);
        let mut parts: Vec<String> = (0..before).map(|_| valid_primary(&mut r).to_string()).collect();
        let mut open = false;
        match r.below(5) {
            0 => {
                parts.push("(".into());
                open = true;
            }
            1 => parts.push("!".into()),
            2 if before > 0 => parts.push(r.pick(&["-o", "-a", ","]).to_string()),
            _ => {}
        }
        parts.push(w);
        for _ in 0..r.usize(3) {
            parts.push(valid_primary(&mut r).to_string());
        }
        if open {
            parts.push(")".into());
        }
        let text = parts.join(" ");
        check(&text, &format!("unknown:{}", i), before, rep);
    });
    // a failing primary at the head of a very long input (70-300 KiB follow it): whatever is re-read to
    // build the message must not depend on how much input remains
    let n_huge = ctx.pick(1, 60) + 4;
    par_cases(ctx, "hugetail", n_huge, rep, |i, rep| {
        let mut r = Rng::for_case(ctx.seed, "hugetail", i);
        let kw = kws[r.usize(kws.len())];
        let bad = match bad_arg_for(kw.lang, &mut r) {
            Some(b) => b,
            None => return,
        };
        // quoted spelling with a blank inside now and then (the word has to be re-read with its quotes)
        let arg = if r.chance(1, 2) && !bad.contains('\'') && !bad.contains('"') { format!("'{} doe'", bad) } else { bad };
        let failing = if kw.lang == Lang::WordFormat { format!("{} f {}", kw.word, arg) } else { format!("{} {}", kw.word, arg) };
        let reps = (70_000 + r.usize(230_000)) / 8;
        let mut text = String::with_capacity(reps * 8 + 64);
        if r.chance(1, 2) {
            text.push_str("-true ");
        }
        text.push_str(&failing);
        for _ in 0..reps {
            text.push_str(" -uid 5");
        }
        rep.count("huge_tail_inputs");
        check(&text, &format!("hugetail:{}", i), 1, rep);
    });
    if ctx.only.is_none() {
        rep.floor("missing-, bad-argument and unknown-word messages all observed", rep.get("missing_argument_messages") > 50 && rep.get("bad_argument_messages") > 50 && rep.get("unknown_word_messages") > 50);
    }
}
