//! C12: unsupported constructs are refused (and named), never silently dropped.

use crate::findsem::{unsupported_field, unsupported_test};
use crate::gen::*;
use crate::json::J;
use crate::policy::{run_policy, PolicyError};
use crate::rec::FileRecord;
use crate::report::{par_cases, Ctx, Report};
use crate::rng::Rng;
use crate::sut::{compile_g, opts_default, parse_g};
use lipe_find_parser::ast::*;

/// Unsupported constructs in the tree, each with the names an error message may use for it.
fn unsupported(e: &Expression, out: &mut Vec<(String, Vec<String>, bool)>, dead_or_nested: bool) {
    let fmt = |f: &Vec<FormatElement>, out: &mut Vec<(String, Vec<String>, bool)>| {
        for (i, el) in f.iter().enumerate() {
            match el {
                FormatElement::Field(ff) => {
                    if let Some(n) = unsupported_field(ff) {
                        out.push((format!("format:{}", n), vec![n.to_lowercase(), field_text(ff).to_lowercase()], i > 0 || dead_or_nested));
                    }
                }
                FormatElement::Special(FormatSpecial::Clear) => out.push(("format:Clear".into(), vec!["clear".into(), "\\c".into()], i > 0 || dead_or_nested)),
                _ => {}
            }
        }
    };
    match e {
        Expression::Test(t) => {
            if let Some(n) = unsupported_test(t) {
                let kw = test_text(t, &Style::default()).map(|s| s.split(' ').next().unwrap().to_string()).unwrap_or_default();
                let mut names = vec![n.to_lowercase()];
                if !kw.is_empty() {
                    names.push(kw);
                }
                out.push((format!("test:{}", n), names, dead_or_nested));
            }
        }
        Expression::Action(a) => match a {
            Action::Prune => out.push(("action:Prune".into(), vec!["prune".into()], dead_or_nested)),
            Action::List => out.push(("action:List".into(), vec!["list".into(), "-ls".into()], dead_or_nested)),
            Action::FileList(_) => out.push(("action:FileList".into(), vec!["filelist".into(), "-fls".into()], dead_or_nested)),
            Action::PrintFormatted(f) => fmt(f, out),
            Action::FilePrintFormatted(_, f) => fmt(f, out),
            _ => {}
        },
        Expression::Positional(_) => out.push(("option:Positional".into(), vec!["xdev".into(), "positional".into(), "nope".into()], dead_or_nested)),
        Expression::Global(g) => {
            let n = crate::monitors::variant(g).to_lowercase();
            // a depth limit is something the target cannot express at all (parse() refuses the words for that
            // reason): a hand-built node must be refused, compiling it to a constant drops it silently.
            // -depth / -threads nodes: refused, or compiled like -true (C13's sentence) - both accepted.
            let kind = match g {
                GlobalOption::MaxDepth(_) | GlobalOption::MinDepth(_) => "option:DepthLimit",
                _ => "option:Global",
            };
            out.push((kind.into(), vec![n.clone(), format!("-{}", n), "global".into()], dead_or_nested))
        }
        Expression::Operator(op) => match op.as_ref() {
            Operator::Precedence(x) => unsupported(x, out, dead_or_nested),
            Operator::Not(x) => unsupported(x, out, true),
            Operator::And(a, b) | Operator::Or(a, b) | Operator::List(a, b) => {
                unsupported(a, out, true);
                unsupported(b, out, true);
            }
        },
    }
}

fn unsupported_leaf(r: &mut Rng) -> Expression {
    match r.below(26) {
        k @ 0..=12 => t(gen_unsupported_test_with(k as usize, r)),
        13 => act(Action::Prune),
        14 => act(Action::List),
        15 => act(Action::FileList(r.pick(&["ls.out", "/dev/null", "/dev/stdout", "-", ""]).to_string())),
        k @ 16..=22 => {
            let mut f = gen_format(r, true);
            let pos = if r.chance(1, 2) { f.len() } else { r.usize(f.len() + 1) };
            f.insert(pos, FormatElement::Field(unsupported_field_by_index((k - 16) as usize)));
            normalise(&mut f);
            if r.chance(1, 2) {
                act(Action::PrintFormatted(f))
            } else {
                act(Action::FilePrintFormatted("o".into(), f))
            }
        }
        23 => {
            let mut f = gen_format(r, true);
            let pos = r.usize(f.len() + 1);
            f.insert(pos, FormatElement::Special(FormatSpecial::Clear));
            act(Action::PrintFormatted(f))
        }
        24 => Expression::Positional(PositionalOption::XDev),
        _ => Expression::Global(match r.below(4) {
            0 => GlobalOption::Depth,
            1 => GlobalOption::MaxDepth(3),
            2 => GlobalOption::MinDepth(1),
            _ => GlobalOption::Threads(4),
        }),
    }
}

fn normalise(_f: &mut Vec<FormatElement>) {}

fn check(e: &Expression, case: &str, rep: &mut Report) {
    rep.evaluations += 1;
    let mut uns = vec![];
    unsupported(e, &mut uns, false);
    // hand-built option nodes: C13 says an option inside the expression behaves as -true, C12 says an
    // option the target cannot express is refused - either is accepted
    let has_global = uns.iter().any(|u| u.0 == "option:Global");
    let uns_all = uns.clone();
    uns.retain(|u| u.0 != "option:Global");
    let res = match compile_g(e, &crate::sut::opts_for(crate::rng::hash_str(case)), "/dev/x") {
        Err(p) => {
            let which = uns.first().map(|u| u.0.clone()).unwrap_or_else(|| "supported-tree".into());
            rep.violation(&format!("C12:{}:{}", p.sig(), which), &format!("compile panicked: {} on {:?}", p.0, e), case, J::obj(vec![("tree", J::s(format!("{:?}", e)))]));
            return;
        }
        Ok((r, _, _)) => r,
    };
    if uns.is_empty() && has_global {
        if res.is_err() {
            rep.count("option_node_refused");
            return;
        }
        // compiled: then the option node must behave there as -true (C13)
        fn subst(e: &Expression) -> Expression {
            match e {
                Expression::Global(_) => t(Test::True),
                Expression::Operator(op) => match op.as_ref() {
                    Operator::Precedence(x) => prec(subst(x)),
                    Operator::Not(x) => not(subst(x)),
                    Operator::And(a, b) => and(subst(a), subst(b)),
                    Operator::Or(a, b) => or(subst(a), subst(b)),
                    Operator::List(a, b) => list(subst(a), subst(b)),
                },
                other => other.clone(),
            }
        }
        let eref = subst(e);
        let mut r = Rng::new(5);
        match crate::tv::validate_as(e, &eref, &crate::sut::opts_for(crate::rng::hash_str(case)), &mut |now| directed_records(&eref, now, &mut r, 3)) {
            crate::tv::Tv::Bad { kind, what, detail } => rep.violation(&format!("C12:option-node-not-true:{}", kind), &format!("a hand-built option node was compiled, but not like -true: {}", what), case, detail),
            _ => rep.count("option_node_compiled_like_true"),
        }
        return;
    }
    if uns.is_empty() {
        rep.count("supported_trees");
        match res {
            Err(m) => rep.violation("C12:supported-refused", &format!("expression made only of supported constructs refused: {}", m), case, J::obj(vec![("tree", J::s(format!("{:?}", e)))])),
            Ok(c) => {
                // executes without an unbound identifier / placeholder
                match run_policy(&c.text, c.io_map.as_ref(), vec![FileRecord::base(0)]) {
                    Err(PolicyError::Eval(crate::eval::EvalError::Unbound(n))) => {
                        rep.violation("C12:placeholder", &format!("emitted program uses the unbound identifier {}", n), case, J::obj(vec![("program", J::s(&c.text))]))
                    }
                    _ => rep.count("supported_executed"),
                }
            }
        }
        return;
    }
    rep.count("unsupported_trees");
    for u in &uns {
        rep.distinct("constructs_seen", &u.0);
        if u.2 {
            rep.distinct("constructs_seen_nested", &u.0);
        }
    }
    if uns.iter().any(|u| u.2) {
        rep.nontrivial(&format!("{:?}", e));
    }
    match res {
        Ok(c) => {
            let which = uns.iter().map(|u| u.0.clone()).collect::<Vec<_>>();
            rep.violation(
                &format!("C12:accepted:{}", which[0]),
                &format!("expression containing unsupported {:?} compiled to a program", which),
                case,
                J::obj(vec![("tree", J::s(format!("{:?}", e))), ("program", J::s(&c.text))]),
            );
        }
        Err(msg) => {
            let low = msg.to_lowercase();
            let named = uns_all.iter().any(|u| u.1.iter().any(|n| low.contains(n)));
            if !named {
                rep.violation(&format!("C12:not-named:{}", uns[0].0), &format!("refused, but the message does not name the construct ({:?}): {:?}", uns.iter().map(|u| &u.0).collect::<Vec<_>>(), msg), case, J::obj(vec![("tree", J::s(format!("{:?}", e)))]));
            } else {
                rep.count("refused_and_named");
                if rep.samples.is_empty() || (rep.samples.len() < 6 && uns[0].2) {
                    rep.sample(J::obj(vec![("expression", J::s(render_default(e).unwrap_or_else(|| format!("{:?}", e)))), ("unsupported", J::s(format!("{:?}", uns.iter().map(|u| &u.0).collect::<Vec<_>>()))), ("message", J::s(msg))]));
                }
            }
        }
    }
}

pub fn run(ctx: &Ctx, rep: &mut Report) {
    // every construct alone (26 kinds x a few draws)
    par_cases(ctx, "alone", 26 * ctx.pick(400, 20_000), rep, |i, rep| {
        let mut r = Rng::for_case(ctx.seed, "alone", i);
        // cycle deterministically through kinds
        let mut e = unsupported_leaf(&mut r);
        for _ in 0..200 {
            let mut u = vec![];
            unsupported(&e, &mut u, false);
            if !u.is_empty() && (crate::rng::hash_str(&u[0].0) % 26) == (i % 26) {
                break;
            }
            e = unsupported_leaf(&mut r);
        }
        check(&e, &format!("alone:{}", i), rep);
    });
    let n = ctx.pick(5000, 8_000_000);
    par_cases(ctx, "tree", n, rep, |i, rep| {
        let mut r = Rng::for_case(ctx.seed, "tree", i);
        let leaves = 1 + r.usize(7);
        let k_uns = r.usize(4);
        let mut positions: Vec<usize> = (0..leaves).collect();
        r.shuffle(&mut positions);
        let chosen: Vec<usize> = positions.into_iter().take(k_uns.min(leaves)).collect();
        let mut idx = 0;
        let e = gen_tree(&mut r, leaves, &mut |r| {
            let me = idx;
            idx += 1;
            if chosen.contains(&me) {
                let u = unsupported_leaf(r);
                match r.below(4) {
                    0 => and(t(Test::False), u), // dead branch
                    1 => or(t(Test::True), u),   // dead branch
                    _ => u,
                }
            } else {
                gen_leaf(r, 30)
            }
        });
        check(&e, &format!("tree:{}", i), rep);
    });
    // text route: keywords the vocabulary has but the target has not
    let n_text = ctx.pick(1000, 30_000);
    par_cases(ctx, "text", n_text, rep, |i, rep| {
        let mut r = Rng::for_case(ctx.seed, "text", i);
        let leaves = 1 + r.usize(4);
        let e = gen_tree(&mut r, leaves, &mut |r| {
            if r.chance(1, 3) {
                loop {
                    let u = unsupported_leaf(r);
                    if !matches!(u, Expression::Positional(_) | Expression::Global(_)) {
                        break u;
                    }
                }
            } else {
                gen_leaf(r, 30)
            }
        });
        if let Some(text) = render_default(&e) {
            if let Ok(Ok((_, parsed))) = parse_g(&text) {
                check(&parsed, &format!("text:{}", i), rep);
            }
        }
    });
    if ctx.only.is_none() {
        let seen = rep.sets.get("constructs_seen").map(|s| s.len()).unwrap_or(0);
        rep.floor("all 25 unsupported construct kinds seen", seen >= 24);
        rep.floor("supported and unsupported trees observed", rep.get("supported_trees") > 100 && rep.get("unsupported_trees") > 100);
    }
}
