//! C07: numbers are exact or rejected; nothing wraps, truncates or saturates.

use crate::cmp::{compare, Cmp};
use crate::gen::directed_records;
use crate::json::J;
use crate::policy::run_policy;
use crate::rec::FileRecord;
use crate::report::{par_cases, Ctx, Report};
use crate::rng::Rng;
use crate::sut::compile_g;
use crate::tv::{validate, Tv};

const PRIMS: &[(&str, &str, u32)] = &[
    // keyword, unit suffixes to try, bits of the count field
    ("-uid", "", 32),
    ("-gid", "", 32),
    ("-inum", "", 32),
    ("-mirror-count", "", 32),
    ("-stripe-count", "", 32),
    ("-links", "", 64),
    ("-size", "|b|c|w|k|M|G|T", 64),
    ("-amin", "|s|m|h|d", 64),
    ("-atime", "|s|m|h|d", 64),
    ("-cmin", "|s|m|h|d", 64),
    ("-ctime", "|s|m|h|d", 64),
    ("-mmin", "|s|m|h|d", 64),
    ("-mtime", "|s|m|h|d", 64),
    ("-threads", "", 32),
];

fn unit_mult(kw: &str, u: &str) -> u128 {
    if kw != "-size" {
        return 1;
    }
    match u {
        "" | "b" => 512,
        "c" => 1,
        "w" => 2,
        "k" => 1 << 10,
        "M" => 1 << 20,
        "G" => 1 << 30,
        _ => 1 << 40,
    }
}

fn boundary_values(mult: u128) -> Vec<u128> {
    let mut v = vec![0u128, 1, 2, 9, 10];
    for p in [31u32, 32, 63, 64] {
        let b = 1u128 << p;
        v.extend([b - 2, b - 1, b, b + 1]);
    }
    let q = ((1u128 << 64) - 1) / mult;
    v.extend([q.saturating_sub(1), q, q + 1, q + 2]);
    let q2 = (1u128 << 64) / mult;
    v.extend([q2.saturating_sub(1), q2, q2 + 1]);
    v.push(u128::MAX / 3);
    v.push(10u128.pow(38));
    v.sort();
    v.dedup();
    v
}

fn near_boundary(v: u128, mult: u128) -> bool {
    let mut bs = vec![1u128 << 31, 1 << 32, 1 << 63, 1 << 64, ((1u128 << 64) - 1) / mult, (1u128 << 64) / mult];
    bs.dedup();
    bs.iter().any(|b| v + 2 >= *b && v <= *b + 2)
}

fn check(kw: &str, unit: &str, value_text: &str, v: Option<u128>, sign: &str, case: &str, rep: &mut Report) {
    rep.evaluations += 1;
    let arg = format!("{}{}{}", sign, value_text, unit);
    let text = if kw == "-threads" { format!("-threads {} -true", arg) } else { format!("{} {}", kw, arg) };
    let mult = unit_mult(kw, unit);
    if let Some(v) = v {
        if near_boundary(v, mult) {
            rep.nontrivial(&text);
        }
    }
    match compare(&text) {
        Cmp::Skip(w) => {
            rep.skipped_unspecified += 1;
            rep.count(&format!("skip:{}", w));
        }
        Cmp::AgreeErr(_, _) => rep.count("out_of_range_or_malformed_refused"),
        // C07 allows "or the input is rejected with an error": whether an in-range value belongs to the
        // language is C05's subject
        Cmp::Bad { kind, .. } if kind == "rejects-member" => rep.count("in_range_rejected"),
        Cmp::Bad { kind, what, detail } => {
            let k = if kind.starts_with("accepts-bad-argument") { "accepts-out-of-range".to_string() } else { kind };
            rep.violation(&format!("C07:{}:{}", k, kw), &what, case, detail)
        }
        Cmp::AgreeOk(want, opts, tree) => {
            rep.count("in_range_tree_exact");
            // behaviour: executed constants agree with the reference at V-1, V, V+1 (per unit)
            if kw == "-threads" {
                match compile_g(&tree, &opts, "/dev/x") {
                    Err(p) => rep.violation(&format!("C07:{}:{}", p.sig(), kw), &format!("compile panicked for {:?}: {}", text, p.0), case, J::obj(vec![("input", J::s(&text))])),
                    Ok((Err(_), _, _)) => rep.count("refused_by_compile"), // "or the input is rejected": C12/C05 decide whether it may be
                    Ok((Ok(c), _, _)) => match run_policy(&c.text, c.io_map.as_ref(), vec![FileRecord::base(0)]) {
                        Err(e) if e.is_model_limit() => rep.violation("C07:model-lacks", &format!("{:?}: {}", text, e), case, J::Null),
                        Err(e) => rep.violation("C07:policy-error:-threads", &format!("{:?}: {}", text, e), case, J::obj(vec![("program", J::s(&c.text))])),
                        Ok(run) => {
                            if run.scan.threads != want.threads.map(|x| x as i128) {
                                rep.violation("C07:wrong-constant:-threads", &format!("{:?}: scan received {:?}, expected {:?}", text, run.scan.threads, want.threads), case, J::obj(vec![("program", J::s(&c.text))]));
                            } else {
                                rep.count("executed_constant_exact");
                            }
                        }
                    },
                }
                return;
            }
            let mut r = Rng::new(7);
            match validate(&tree, &opts, &mut |now| directed_records(&tree, now, &mut r, 0)) {
                Tv::Agree { records, .. } => {
                    rep.count("executed_constant_exact");
                    rep.add("records_compared", records as u64);
                    if rep.samples.is_empty() || (rep.samples.len() < 6 && v.map_or(false, |v| near_boundary(v, mult))) {
                        rep.sample(J::obj(vec![("input", J::s(&text)), ("verdict", J::s("tree number exact; executed policy agrees with the reference at value-1, value, value+1")), ("records", J::Int(records as i128))]));
                    }
                }
                Tv::Skip(_) => rep.skipped_unspecified += 1,
                Tv::Refused(_) => rep.count("refused_by_compile"),
                Tv::Bad { kind, what, mut detail } => {
                    detail.push("input", J::s(&text));
                    rep.violation(&format!("C07:exec-{}:{}", kind, kw), &format!("{:?}: {}", text, what), case, detail)
                }
            }
        }
    }
}

pub fn run(ctx: &Ctx, rep: &mut Report) {
    // systematic boundaries
    let mut combos: Vec<(&str, String)> = vec![];
    for (kw, units, _) in PRIMS {
        for u in units.split('|') {
            combos.push((kw, u.to_string()));
        }
    }
    let signs: &[&str] = &["", "+", "-"];
    let zeros: &[usize] = &[0, 1, 7, 30];
    let nc = combos.len() as u64;
    par_cases(ctx, "boundary", nc, rep, |i, rep| {
        let (kw, unit) = &combos[i as usize];
        let mult = unit_mult(kw, unit);
        for v in boundary_values(mult) {
            for s in signs {
                if *kw == "-threads" && !s.is_empty() {
                    continue;
                }
                for z in zeros {
                    let vt = format!("{}{}", "0".repeat(*z), v);
                    check(kw, unit, &vt, Some(v), s, &format!("boundary:{}", i), rep);
                }
            }
        }
    });
    let n = ctx.pick(20_000, 6_000_000);
    par_cases(ctx, "random", n, rep, |i, rep| {
        let mut r = Rng::for_case(ctx.seed, "random", i);
        let (kw, unit) = &combos[r.usize(combos.len())];
        let mut vt = String::new();
        if r.chance(1, 2) {
            // within +-40 of a boundary of the field or of 2^64/unit
            let mult = unit_mult(kw, unit);
            let bs = [1u128 << 31, 1 << 32, 1 << 63, 1 << 64, ((1u128 << 64) - 1) / mult, (1u128 << 64) / mult, 1 << 16, 1 << 8];
            let b = bs[r.usize(bs.len())];
            let v = (b + r.below(81) as u128).saturating_sub(40);
            vt = format!("{}{}", "0".repeat(if r.chance(1, 5) { r.usize(31) } else { 0 }), v);
        } else {
            let digits = 1 + r.usize(40);
            for _ in 0..digits {
                vt.push((b'0' + r.below(10) as u8) as char);
            }
        }
        let v = vt.trim_start_matches('0').parse::<u128>().ok().or(Some(0));
        let s = if *kw == "-threads" { "" } else { signs[r.usize(3)] };
        check(kw, unit, &vt, v, s, &format!("random:{}", i), rep);
    });
    // notations other than plain decimal (fractions, separators, exponents, radix prefixes, SI / IEC / word
    // units, doubled signs, non-ASCII digits) on every numeric primary and unit: the reference decides
    // membership (e.g. `5m` is a time, not a size); an accepted non-member is a number read as another one
    let nn = crate::gen::NOTATIONS.len() as u64;
    let digits = ["1", "5", "10", "15", "100", "007", "0"];
    par_cases(ctx, "notation", nc * nn, rep, |i, rep| {
        let (kw, unit) = &combos[(i / nn) as usize];
        let pat = crate::gen::NOTATIONS[(i % nn) as usize];
        for (k, d) in digits.iter().enumerate() {
            if k > 1 && (i + k as u64) % 3 != 0 {
                continue;
            }
            let body = pat.replace("{}", d);
            for (arg, quoted) in [(format!("{}{}", body, unit), false), (format!("{}{}", body, unit), true)] {
                if arg.contains(' ') != quoted && arg.contains(' ') {
                    continue; // a blank needs quotes to stay one word; quoted numerics are otherwise unspecified
                }
                if quoted && !arg.contains(' ') {
                    continue;
                }
                rep.evaluations += 1;
                let a = if quoted { format!("'{}'", arg) } else { arg.clone() };
                let text = if *kw == "-threads" { format!("-threads {} -true", a) } else { format!("{} {}", kw, a) };
                match compare(&text) {
                    Cmp::Skip(_) => rep.skipped_unspecified += 1,
                    Cmp::AgreeErr(_, _) => rep.count("other_notation_refused"),
                    Cmp::AgreeOk(..) => rep.count("other_notation_is_a_member"),
                    Cmp::Bad { kind, .. } if kind == "rejects-member" => rep.count("in_range_rejected"),
                    Cmp::Bad { kind, what, detail } => {
                        let k = if kind.starts_with("accepts-bad-argument") { "accepts-other-notation".to_string() } else { kind };
                        rep.violation(&format!("C07:{}:{}", k, kw), &what, &format!("notation:{}", i), detail)
                    }
                }
            }
        }
    });
    if ctx.only.is_none() {
        rep.floor("in-range and out-of-range values both observed", rep.get("in_range_tree_exact") > 100 && rep.get("out_of_range_or_malformed_refused") > 100);
        rep.floor("constants executed", rep.get("executed_constant_exact") > 100);
        rep.floor("most in-range values carried (rejections are C05's/C12's subject)", (rep.get("in_range_rejected") + rep.get("refused_by_compile")) * 2 < rep.get("in_range_tree_exact").max(1));
    }
}
