//! C06: equivalent spellings give identical results (metamorphic: layout variants == canonical).

use crate::gen::*;
use crate::json::J;
use crate::report::{par_cases, Ctx, Report};
use crate::rng::Rng;
use crate::sut::parse_g;
use lipe_find_parser::ast::*;

const SEPS: [&str; 7] = [" ", "  ", "\t", "\n", "\r", "\r\n", " \t\n"];

/// Variant renderer: independent choices per gap / operator / operand / argument.
struct Var<'a> {
    r: &'a mut Rng,
    axes: [bool; 5], // sep, and/or spelling, parens, quoting, edges
}

impl<'a> Var<'a> {
    fn sep(&mut self) -> String {
        let s = SEPS[self.r.usize(7)];
        if s != " " {
            self.axes[0] = true;
        }
        s.to_string()
    }
    fn word(&mut self, s: &str) -> Option<String> {
        let q = self.r.below(3) as u8;
        let w = word(s, q)?;
        if w != word(s, 0)? {
            self.axes[3] = true;
        }
        Some(w)
    }
    fn leaf(&mut self, e: &Expression) -> Option<String> {
        // word-valued arguments get a quoting style; numeric/type arguments stay bare
        let st = Style::default();
        Some(match e {
            Expression::Test(x) => match x {
                Test::Name(s) => format!("-name{}{}", self.sep(), self.word(s)?),
                Test::InsensitiveName(s) => format!("-iname{}{}", self.sep(), self.word(s)?),
                Test::Path(s) => format!("-path{}{}", self.sep(), self.word(s)?),
                Test::InsensitivePath(s) => format!("-ipath{}{}", self.sep(), self.word(s)?),
                Test::Pool(s) => format!("-pool{}{}", self.sep(), self.word(s)?),
                Test::Xattr(s) => format!("-xattr{}{}", self.sep(), self.word(s)?),
                Test::XattrMatch(a, b) => format!("-xattr-match{}{}{}{}", self.sep(), self.word(a)?, self.sep(), self.word(b)?),
                Test::Perm(p) => format!("-perm{}{}", self.sep(), self.word(&perm_text(p))?),
                other => {
                    let t = test_text(other, &st)?;
                    match t.split_once(' ') {
                        Some((k, a)) => format!("{}{}{}", k, self.sep(), a),
                        None => t,
                    }
                }
            },
            Expression::Action(a) => match a {
                Action::FilePrint(f) => format!("-fprint{}{}", self.sep(), self.word(f)?),
                Action::FilePrintNull(f) => format!("-fprint0{}{}", self.sep(), self.word(f)?),
                Action::PrintFormatted(fmt) => format!("-printf{}{}", self.sep(), self.word(&format_text(fmt)?)?),
                Action::FilePrintFormatted(f, fmt) => format!("-fprintf{}{}{}{}", self.sep(), self.word(f)?, self.sep(), self.word(&format_text(fmt)?)?),
                other => action_text(other, &st)?,
            },
            _ => return None,
        })
    }
    fn wrap(&mut self, s: String, layers: u64) -> String {
        let mut s = s;
        for _ in 0..layers {
            self.axes[2] = true;
            let inner_blank = self.r.chance(1, 2);
            s = if inner_blank { format!("({}{}{})", self.sep(), s, self.sep()) } else { format!("({})", s) };
        }
        s
    }
    fn level(e: &Expression) -> u8 {
        match e {
            Expression::Operator(op) => match op.as_ref() {
                Operator::List(_, _) => 0,
                Operator::Or(_, _) => 1,
                Operator::And(_, _) => 2,
                Operator::Not(_) => 3,
                Operator::Precedence(_) => 4,
            },
            _ => 4,
        }
    }
    fn sub(&mut self, x: &Expression, need: u8) -> Option<String> {
        let s = self.render(x)?;
        let must = Self::level(x) < need;
        let extra = if self.r.chance(1, 4) { 1 + self.r.below(2) } else { 0 };
        if must {
            // mandatory parentheses are not a variation; extra layers are
            let inner = format!("({}{}{})", self.sep(), s, self.sep());
            Some(self.wrap(inner, extra))
        } else {
            Some(self.wrap(s, extra))
        }
    }
    fn render(&mut self, e: &Expression) -> Option<String> {
        Some(match e {
            Expression::Operator(op) => match op.as_ref() {
                Operator::Precedence(_) => return None,
                Operator::Not(x) => format!("!{}{}", self.sep(), self.sub(x, 3)?),
                Operator::And(a, b) => {
                    let l = self.sub(a, 2)?;
                    let rr = self.sub(b, 3)?;
                    match self.r.below(3) {
                        0 => format!("{}{}{}", l, self.sep(), rr),
                        1 => {
                            self.axes[1] = true;
                            format!("{}{}-a{}{}", l, self.sep(), self.sep(), rr)
                        }
                        _ => {
                            self.axes[1] = true;
                            format!("{}{}-and{}{}", l, self.sep(), self.sep(), rr)
                        }
                    }
                }
                Operator::Or(a, b) => {
                    let l = self.sub(a, 1)?;
                    let rr = self.sub(b, 2)?;
                    let w = if self.r.chance(1, 2) {
                        self.axes[1] = true;
                        "-or"
                    } else {
                        "-o"
                    };
                    format!("{}{}{}{}{}", l, self.sep(), w, self.sep(), rr)
                }
                Operator::List(a, b) => {
                    let l = self.sub(a, 0)?;
                    let rr = self.sub(b, 1)?;
                    format!("{}{},{}{}", l, self.sep(), self.sep(), rr)
                }
            },
            leaf => self.leaf(leaf)?,
        })
    }
}

fn strip_opts(o: &lipe_find_parser::RunOptions) -> String {
    format!("{:?}", o)
}

pub fn run(ctx: &Ctx, rep: &mut Report) {
    let n = ctx.pick(2000, 400_000);
    let variants = ctx.pick(40, 60);
    par_cases(ctx, "expr", n, rep, |i, rep| {
        let mut r = Rng::for_case(ctx.seed, "expr", i);
        let leaves = 1 + r.usize(6);
        let e = gen_tree(&mut r, leaves, &mut |r| {
            if r.chance(1, 4) {
                act(gen_action_kind(r.usize(SUPPORTED_ACTIONS), r))
            } else {
                // word-valued arguments with blanks so that quoting matters
                match r.below(6) {
                    0 => t(Test::Name(r.pick(&["a b", "x", "it's", "say \"hi\"", "*.c", "tab\there", "a\\\\b", "a\\b", "x\\", "\\n", "\\\\", "$HOME", "`x`", "a\\ b", "\\'", "\\\"", "-print", "-true", "-o", "-name", "!", ",", "-depth", "-a", "a\u{a0}b", "a\u{3000}b", "x\u{2028}", "\u{b}v", "f\u{c}f", "n\u{85}l", "t\u{2009}s", "z\u{200b}w", "\u{feff}bom", "e\u{301}"]).to_string())),
                    1 => t(Test::Pool(r.pick(&["fast", "p 1"]).to_string())),
                    _ => t(gen_test_kind(r.usize(SUPPORTED_TESTS), r)),
                }
            }
        });
        let canonical = match render_default(&e) {
            Some(c) => c,
            None => return,
        };
        // a third of the expressions carry leading options, so that "identical options" is not only
        // ever compared on the defaults
        let opt_words: Vec<String> = match i % 6 {
            0 => vec!["-depth".into()],
            1 => vec!["-threads".into(), format!("{}", 1 + i % 9)],
            2 => vec!["-threads".into(), format!("{}", i % 5), "-depth".into()],
            _ => vec![],
        };
        let canonical = if opt_words.is_empty() { canonical } else { format!("{} {}", opt_words.join(" "), canonical) };
        let base = match parse_g(&canonical) {
            Ok(Ok(v)) => v,
            Ok(Err(msg)) => {
                // whether the canonical text belongs to the language is C05's subject - unless an equivalent
                // spelling of the same text is accepted: then two spellings that differ only insignificantly
                // give different results (an error and a tree)
                for k in 0..6 {
                    let mut vr = Rng::for_case(ctx.seed ^ 0x99, "variant", i * 1000 + k);
                    let mut var = Var { r: &mut vr, axes: [false; 5] };
                    if let Some(body) = var.render(&e) {
                        let text = if opt_words.is_empty() { body } else { format!("{} {}", opt_words.join(" "), body) };
                        if let Ok(Ok(_)) = parse_g(&text) {
                            rep.violation(
                                "C06:canonical-rejected-variant-accepted",
                                &format!("canonical {:?} is refused ({}) but the equivalent spelling {:?} is accepted", canonical, msg, text),
                                &format!("expr:{}", i),
                                J::obj(vec![("canonical", J::s(&canonical)), ("variant", J::s(&text))]),
                            );
                            return;
                        }
                    }
                }
                rep.count("canonical_not_parsed");
                return;
            }
            Err(p) => {
                rep.violation(&format!("C06:{}", p.sig()), &format!("parse panicked on {:?}", canonical), &format!("expr:{}", i), J::obj(vec![("input", J::s(&canonical))]));
                return;
            }
        };
        if base.1 != e {
            rep.count("canonical_tree_differs"); // C05/C01's subject
            return;
        }
        if !opt_words.is_empty() {
            rep.count("expressions_with_leading_options");
        }
        for k in 0..variants {
            let mut vr = Rng::for_case(ctx.seed ^ 0x77, "variant", i * 1000 + k);
            let mut var = Var { r: &mut vr, axes: [false; 5] };
            let mut text = match var.render(&e) {
                Some(t) => t,
                None => return,
            };
            if var.r.chance(1, 3) {
                text = format!("{}{}", var.sep(), text);
                var.axes[4] = true;
            }
            if var.r.chance(1, 3) {
                text = format!("{}{}", text, var.sep());
                var.axes[4] = true;
            }
            if var.r.chance(1, 8) {
                let layers = 1 + var.r.below(2);
                text = var.wrap(text, layers);
            }
            // leading options stay outside any parentheses (inside they would count as -true: C13)
            if !opt_words.is_empty() {
                let mut pre = String::new();
                for w in &opt_words {
                    pre.push_str(w);
                    pre.push_str(&var.sep());
                }
                text = format!("{}{}", pre, text);
            }
            let axes = var.axes.iter().filter(|b| **b).count();
            rep.evaluations += 1;
            if axes >= 2 {
                rep.nontrivial(&text);
            }
            for (ai, a) in var.axes.iter().enumerate() {
                if *a {
                    rep.count(["axis_separator", "axis_operator_spelling", "axis_parentheses", "axis_quoting", "axis_edges"][ai]);
                }
            }
            let case = format!("expr:{}", i);
            match parse_g(&text) {
                Err(p) => rep.violation(&format!("C06:{}", p.sig()), &format!("parse panicked on variant {:?}", text), &case, J::obj(vec![("input", J::s(&text))])),
                Ok(Err(msg)) => {
                    let sig = classify(&text);
                    rep.violation(&format!("C06:variant-rejected:{}", sig), &format!("canonical {:?} parses but the equivalent spelling {:?} is refused: {}", canonical, text, msg), &case, J::obj(vec![("canonical", J::s(&canonical)), ("variant", J::s(&text))]));
                }
                Ok(Ok((o, tree))) => {
                    if tree != base.1 || strip_opts(&o) != strip_opts(&base.0) {
                        let sig = classify(&text);
                        rep.violation(&format!("C06:variant-differs:{}", sig), &format!("canonical {:?} and the equivalent spelling {:?} give different results: {:?} vs {:?}", canonical, text, base.1, tree), &case, J::obj(vec![("canonical", J::s(&canonical)), ("variant", J::s(&text))]));
                    } else if rep.samples.is_empty() || (rep.samples.len() < 5 && axes >= 3) {
                        rep.sample(J::obj(vec![("canonical", J::s(&canonical)), ("variant", J::s(&text)), ("verdict", J::s("equal options and tree"))]));
                    }
                }
            }
        }
    });
    // empty / all-blank inputs mean -true
    let blanks = ["", " ", "\t", "\n", "\r\n", "  \t \n ", "\r"];
    let want = parse_g("-true");
    for (k, b) in blanks.iter().enumerate() {
        if !ctx.wants("blank") {
            break;
        }
        rep.evaluations += 1;
        let got = parse_g(b);
        let same = match (&want, &got) {
            (Ok(Ok((o1, t1))), Ok(Ok((o2, t2)))) => t1 == t2 && strip_opts(o1) == strip_opts(o2),
            _ => false,
        };
        if !same {
            rep.violation("C06:blank-input", &format!("blank input {:?} does not mean the same as -true: {:?}", b, got.map(|r| r.map(|(o, t)| (strip_opts(&o), t)))), &format!("blank:{}", k), J::obj(vec![("input", J::s(*b))]));
        }
    }
    if ctx.only.is_none() {
        rep.floor("all five variant axes exercised", ["axis_separator", "axis_operator_spelling", "axis_parentheses", "axis_quoting", "axis_edges"].iter().all(|a| rep.get(a) > 50));
    }
}

/// which junction a failing variant most likely hit (signature component)
fn classify(text: &str) -> &'static str {
    if text.contains('\t') || text.contains('\r') {
        "tab-or-cr"
    } else if text.contains('\n') {
        "newline"
    } else if text.contains('(') {
        "parentheses"
    } else {
        "other"
    }
}
