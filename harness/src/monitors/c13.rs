//! C13: global options are honoured wherever they appear.

use crate::cmp::{compare, Cmp};
use crate::gen::*;
use crate::json::J;
use crate::policy::run_policy;
use crate::rec::FileRecord;
use crate::report::{par_cases, Ctx, Report};
use crate::rng::Rng;
use crate::sut::compile_g;
use lipe_find_parser::ast::*;

fn has_global(e: &Expression) -> bool {
    match e {
        Expression::Global(_) => true,
        Expression::Operator(op) => match op.as_ref() {
            Operator::Precedence(x) | Operator::Not(x) => has_global(x),
            Operator::And(a, b) | Operator::Or(a, b) | Operator::List(a, b) => has_global(a) || has_global(b),
        },
        _ => false,
    }
}

pub fn run(ctx: &Ctx, rep: &mut Report) {
    let n = ctx.pick(5000, 20_000_000);
    par_cases(ctx, "insert", n, rep, |i, rep| {
        let mut r = Rng::for_case(ctx.seed, "insert", i);
        let case = format!("insert:{}", i);
        let leaves = 1 + r.usize(5);
        let e = gen_tree(&mut r, leaves, &mut |r| gen_leaf(r, 25));
        let mut chunks = vec![];
        if render_chunks(&e, &Style::default(), &mut r, &mut chunks).is_none() {
            return;
        }
        let nopt = r.below(5);
        let mut non_leading = false;
        let mut thread_vals = vec![];
        let mut uses_limits = false;
        for _ in 0..nopt {
            let opt = match r.below(8) {
                0 | 1 | 2 => "-depth".to_string(),
                3 | 4 | 5 => {
                    let v = match r.below(4) {
                        0 => 0,
                        1 => u32::MAX as u64,
                        _ => r.below(64),
                    };
                    thread_vals.push(v);
                    format!("-threads {}", v)
                }
                6 => {
                    uses_limits = true;
                    format!("-maxdepth {}", 100 + r.below(900))
                }
                _ => {
                    uses_limits = true;
                    format!("-mindepth {}", 100 + r.below(900))
                }
            };
            // positions: front (0), end, or anywhere in between
            let pos = match r.below(4) {
                0 => 0,
                1 => chunks.len(),
                _ => r.usize(chunks.len() + 1),
            };
            chunks.insert(pos, opt);
        }
        // leading run = maximal prefix of option chunks
        let lead = chunks.iter().take_while(|c| c.starts_with("-depth") || c.starts_with("-threads") || c.starts_with("-maxdepth") || c.starts_with("-mindepth")).count();
        if chunks.iter().skip(lead).any(|c| c.starts_with("-depth") || c.starts_with("-threads") || c.starts_with("-maxdepth") || c.starts_with("-mindepth")) {
            non_leading = true;
        }
        let mut dv = thread_vals.clone();
        dv.dedup();
        let mut text = String::new();
        for (ci, c) in chunks.iter().enumerate() {
            if ci > 0 {
                text.push_str([" ", " ", "  ", "\t", "\n", " \r\n"][r.usize(6)]);
            }
            text.push_str(c);
        }
        rep.evaluations += 1;
        if non_leading || dv.len() > 1 {
            rep.nontrivial(&text);
        }
        if nopt > 0 {
            rep.count(if non_leading { "inputs_with_non_leading_option" } else { "inputs_with_leading_options_only" });
        }
        match compare(&text) {
            Cmp::Skip(w) => {
                rep.skipped_unspecified += 1;
                rep.count(&format!("skip:{}", w));
            }
            Cmp::AgreeErr(_, _) => {
                if uses_limits {
                    rep.count("depth_limit_inputs_refused");
                } else {
                    rep.count("refused"); // an option landed where the grammar forbids a primary
                }
            }
            Cmp::Bad { kind, what, detail } => {
                if kind == "rejects-member" {
                    // C13 is about *where* an option stands. If the same input with every option moved
                    // to the front (and -true left in its place, which is what it means there) is
                    // refused as well, the refusal is about the option's spelling or value: C05's
                    // subject, counted here
                    let is_opt = |c: &String| c.starts_with("-depth") || c.starts_with("-threads") || c.starts_with("-maxdepth") || c.starts_with("-mindepth");
                    let mut front: Vec<String> = chunks.iter().filter(|c| is_opt(c)).cloned().collect();
                    front.extend(chunks.iter().map(|c| if is_opt(c) { "-true".to_string() } else { c.clone() }));
                    if let Ok(Err(_)) = crate::sut::parse_g(&front.join(" ")) {
                        rep.count("refused_wherever_the_option_stands");
                        return;
                    }
                }
                rep.violation(&format!("C13:{}", kind), &what, &case, detail)
            }
            Cmp::AgreeOk(want, opts, tree) => {
                rep.count("accepted");
                if has_global(&tree) {
                    rep.violation("C13:option-node-in-tree", &format!("an option node reached the tree for {:?}", text), &case, J::obj(vec![("input", J::s(&text))]));
                    return;
                }
                // run-time thread argument
                match compile_g(&tree, &opts, "/dev/x") {
                    Err(p) => rep.violation(&format!("C13:{}", p.sig()), &format!("compile panicked for {:?}: {}", text, p.0), &case, J::obj(vec![("input", J::s(&text))])),
                    Ok((Err(_), _, _)) => rep.count("not_compiled"),
                    Ok((Ok(c), _, _)) => match run_policy(&c.text, c.io_map.as_ref(), vec![FileRecord::base(0)]) {
                        Err(_) => rep.count("policy_not_run"), // C02/C04's subject
                        Ok(run) => {
                            let got = run.scan.threads;
                            let exp = want.threads.map(|v| v as i128);
                            if got != exp {
                                rep.violation(
                                    "C13:thread-argument",
                                    &format!("{:?}: lipe-scan received thread count {:?}, expected {:?} (None = runtime default)", text, got, exp),
                                    &case,
                                    J::obj(vec![("input", J::s(&text)), ("program", J::s(&c.text))]),
                                );
                            } else {
                                rep.count("thread_argument_checked");
                                if rep.samples.is_empty() || (rep.samples.len() < 5 && non_leading) {
                                    rep.sample(J::obj(vec![("input", J::s(&text)), ("options", J::s(format!("{:?}", opts))), ("scan_thread_argument", J::s(format!("{:?}", got)))]));
                                }
                            }
                        }
                    },
                }
            }
        }
    });
    // long leading runs: 17-60 options before the expression (any fixed capacity for the leading run shows as
    // -true operands wrapped around the expression, or as options that no longer count)
    let n_lead = ctx.pick(40, 20_000);
    par_cases(ctx, "leading", n_lead, rep, |i, rep| {
        let mut r = Rng::for_case(ctx.seed, "leading", i);
        let k = 17 + r.usize(44);
        let mut words: Vec<String> = vec![];
        for _ in 0..k {
            words.push(if r.chance(1, 2) { "-depth".to_string() } else { format!("-threads {}", r.below(64)) });
        }
        let leaves = 1 + r.usize(3);
        let e = gen_tree(&mut r, leaves, &mut |r| gen_leaf(r, 25));
        let body = match render_default(&e) {
            Some(b) => b,
            None => return,
        };
        let text = format!("{} {}", words.join(" "), body);
        rep.evaluations += 1;
        rep.count("long_leading_runs");
        match compare(&text) {
            Cmp::Skip(_) => rep.skipped_unspecified += 1,
            Cmp::AgreeErr(_, _) => rep.count("refused"),
            Cmp::AgreeOk(..) => rep.count("accepted"),
            Cmp::Bad { kind, what, detail } => rep.violation(&format!("C13:{}", kind), &what, &format!("leading:{}", i), detail),
        }
    });
    if ctx.only.is_none() {
        rep.floor("thread argument observed at run time", rep.get("thread_argument_checked") > 100);
        rep.floor("non-leading options exercised", rep.get("inputs_with_non_leading_option") > 100);
    }
}
