//! C10: output routing - mode choice and destination table.

use crate::eval::Dest;
use crate::findsem::{actions, needs_frames};
use crate::gen::*;
use crate::json::J;
use crate::policy::target_dest;
use crate::rec::FileRecord;
use crate::report::{par_cases, Ctx, Report};
use crate::rng::Rng;
use crate::sut::opts_default;
use crate::tv::{validate, Tv};
use lipe_find_parser::ast::*;
use std::collections::HashSet;

fn fmt_pool(k: u64) -> Vec<FormatElement> {
    match k {
        0 => vec![FormatElement::Field(FormatField::Name), FormatElement::Special(FormatSpecial::Newline)],
        1 => vec![FormatElement::Field(FormatField::Name)],
        2 => vec![FormatElement::Literal("x".into()), FormatElement::Special(FormatSpecial::Newline), FormatElement::Literal("y".into())],
        _ => vec![FormatElement::Special(FormatSpecial::Newline)],
    }
}

const POOL: u64 = 4 + 4 + 3 + 3 + 12 + 1;
#[allow(deprecated)]
fn action_pool(k: u64) -> Action {
    // "a" / "./a" : names that a path normalisation would merge must stay distinct destinations
    let files = ["a", "/dev/stdout", "./a"];
    match k {
        0 => Action::Print,
        1 => Action::PrintNull,
        2 => Action::PrintFid,
        3 => Action::Quit,
        4..=7 => Action::PrintFormatted(fmt_pool(k - 4)),
        8..=10 => Action::FilePrint(files[(k - 8) as usize].into()),
        11..=13 => Action::FilePrintNull(files[(k - 11) as usize].into()),
        26 => Action::DefaultPrint, // the deprecated implicit-print node, written by hand: a print like -print
        _ => Action::FilePrintFormatted(files[((k - 14) / 4) as usize].into(), fmt_pool((k - 14) % 4)),
    }
}

/// (destination, terminator) a given action writes to; None for actions without a table entry.
fn target_of(a: &Action) -> Option<(Dest, Option<char>)> {
    Some(match a {
        #[allow(deprecated)]
        Action::Print | Action::PrintFid | Action::DefaultPrint => (Dest::Stdout, Some('\n')),
        Action::PrintNull => (Dest::Stdout, Some('\0')),
        Action::PrintFormatted(_) => (Dest::Stdout, None),
        Action::FilePrint(f) => (Dest::File(f.clone()), Some('\n')),
        Action::FilePrintNull(f) => (Dest::File(f.clone()), Some('\0')),
        Action::FilePrintFormatted(f, _) => (Dest::File(f.clone()), None),
        _ => return None,
    })
}

/// Put the actions in an operator tree in which every action runs on some record.
fn place(acts: Vec<Action>, r: &mut Rng) -> Expression {
    let mut e: Option<Expression> = None;
    for a in acts {
        let node = match r.below(6) {
            0 => act(a),
            1 => or(not(act(a)), t(Test::True)), // ! A -o true : A always runs
            2 => and(t(Test::True), act(a)),
            3 => or(t(Test::False), act(a)),
            // explicit grouping nodes, which only hand-built trees contain: the action sits below one
            4 => prec(act(a)),
            _ => prec(and(t(Test::True), prec(act(a)))),
        };
        e = Some(match e {
            None => node,
            Some(prev) => match r.below(4) {
                0 => list(prev, node),
                1 => and(prev, node),
                2 => list(prev, or(node, t(Test::True))),
                _ => prec(list(prev, node)),
            },
        });
    }
    e.unwrap_or(t(Test::True))
}

fn check(e: &Expression, case: &str, rep: &mut Report, nontrivial_key: Option<String>) {
    rep.evaluations += 1;
    let mut av = vec![];
    actions(e, &mut av);
    let want_framed = needs_frames(e);
    let mut recs = vec![FileRecord::base(0), FileRecord::base(1)];
    recs[1].relpath = "z".into();
    match validate(e, &crate::sut::opts_for(crate::rng::hash_str(case)), &mut |_| recs.clone()) {
        Tv::Skip(_) => rep.skipped_unspecified += 1,
        Tv::Refused(_) => rep.count("refused_by_compile"), // C12's subject
        Tv::Bad { kind, what, mut detail } => {
            detail.push("expression", J::s(render_default(e).unwrap_or_default()));
            let has_fid = av.iter().any(|a| matches!(a, Action::PrintFid));
            let sig = format!("C10:{}:{}{}", kind, if want_framed { "framed" } else { "plain" }, if has_fid { ":print-file-fid" } else { "" });
            rep.violation(&sig, &what, case, detail);
        }
        Tv::Agree { compiled, run, .. } => {
            let framed = compiled.io_map.is_some();
            rep.count(if framed { "framed_programs" } else { "plain_programs" });
            if framed != want_framed {
                rep.violation(
                    if want_framed { "C10:mode:plain-but-frames-needed" } else { "C10:mode:framed-but-not-needed" },
                    &format!("mode rule: expression {:?} needs framed output = {} but io_map() is {}", render_default(e).unwrap_or_default(), want_framed, if framed { "Some" } else { "None" }),
                    case,
                    J::obj(vec![("tree", J::s(format!("{:?}", e)))]),
                );
                return;
            }
            if let Some(map) = &compiled.io_map {
                rep.add("frames_decoded", run.frames as u64);
                rep.max("max_tag", run.max_tag as u64);
                // table is injective and covers exactly the (destination, terminator) pairs of the tree
                let mut seen: HashSet<String> = HashSet::new();
                for (k, tg) in map {
                    let key = format!("{:?}", target_dest(tg));
                    if !seen.insert(key.clone()) {
                        rep.violation("C10:table-not-injective", &format!("two tags map to {} (tag {})", key, k), case, J::obj(vec![("io_map", J::s(crate::sut::io_map_sorted(&compiled.io_map)))]));
                        return;
                    }
                }
                // Entries the executed actions need are proven present by the decoder (a frame whose tag has
                // no entry is a decode error). Unused surplus entries are not forbidden by the property and
                // are only counted.
                let want: HashSet<String> = av.iter().filter_map(|a| target_of(a)).map(|p| format!("{:?}", p)).collect();
                rep.add("table_entries_beyond_the_actions_targets", seen.difference(&want).count() as u64);
                rep.count("tables_checked");
            }
            if let Some(k) = nontrivial_key {
                rep.nontrivial(&k);
            }
            if rep.samples.is_empty() || (rep.samples.len() < 5 && framed && av.len() >= 3) {
                rep.sample(J::obj(vec![
                    ("expression", J::s(render_default(e).unwrap_or_default())),
                    ("io_map", J::s(crate::sut::io_map_sorted(&compiled.io_map))),
                    ("frames_decoded", J::Int(run.frames as i128)),
                ]));
            }
        }
    }
}

fn one_axis_pair(av: &[Action]) -> bool {
    let ts: Vec<(Dest, Option<char>)> = av.iter().filter_map(target_of).collect();
    for i in 0..ts.len() {
        for j in 0..ts.len() {
            if i != j && ((ts[i].0 == ts[j].0) != (ts[i].1 == ts[j].1)) {
                return true;
            }
        }
    }
    false
}

pub fn run(ctx: &Ctx, rep: &mut Report) {
    // all multisets of up to K actions from the pool
    let k_max = if ctx.tier_thorough { 4 } else { 3 };
    let mut multisets: Vec<Vec<u64>> = vec![];
    fn rec(start: u64, left: usize, cur: &mut Vec<u64>, out: &mut Vec<Vec<u64>>) {
        if !cur.is_empty() {
            out.push(cur.clone());
        }
        if left == 0 {
            return;
        }
        for k in start..POOL {
            cur.push(k);
            rec(k, left - 1, cur, out);
            cur.pop();
        }
    }
    rec(0, k_max, &mut vec![], &mut multisets);
    let n_ms = multisets.len() as u64;
    par_cases(ctx, "multiset", n_ms, rep, |i, rep| {
        let mut r = Rng::for_case(ctx.seed, "multiset", i);
        let mut av: Vec<Action> = multisets[i as usize].iter().map(|k| action_pool(*k)).collect();
        r.shuffle(&mut av);
        let key = if one_axis_pair(&av) { Some(format!("{:?}", multisets[i as usize])) } else { None };
        let e = place(av, &mut r);
        check(&e, &format!("multiset:{}", i), rep, key);
    });
    rep.extra.push(("multisets_enumerated".into(), J::s(format!("all {} multisets of 1..{} actions from a pool of {} (every output action x files a,b,c x 4 formats)", n_ms, k_max, POOL))));
    // larger random multisets (up to 6) in random trees
    let n = ctx.pick(5000, 3_000_000);
    par_cases(ctx, "random", n, rep, |i, rep| {
        let mut r = Rng::for_case(ctx.seed, "random", i);
        let k = 1 + r.usize(6);
        let av: Vec<Action> = (0..k).map(|_| action_pool(r.below(POOL))).collect();
        let key = if one_axis_pair(&av) { Some(format!("{:?}", av)) } else { None };
        let e = place(av, &mut r);
        check(&e, &format!("random:{}", i), rep, key);
    });
    // payloads that contain the frame separator 0x1e itself (through an octal escape or a file name)
    par_cases(ctx, "separator", 12, rep, |i, rep| {
        rep.evaluations += 1;
        let case = format!("separator:{}", i);
        let build = |sep: u16, sepc: char| {
            let fmt = vec![FormatElement::Literal("x".into()), FormatElement::Special(FormatSpecial::Ascii(sep)), FormatElement::Field(FormatField::Basename)];
            let e = match i % 3 {
                0 => list(act(Action::PrintNull), act(Action::PrintFormatted(fmt))),
                1 => list(act(Action::FilePrintFormatted("a".into(), fmt)), act(Action::Print)),
                _ => list(act(Action::FilePrint("a".into())), act(Action::PrintNull)),
            };
            let mut recs = vec![FileRecord::base(0), FileRecord::base(1)];
            if i % 3 == 2 {
                recs[0].relpath = format!("dir/na{}me", sepc);
            }
            (e, recs)
        };
        let (e, recs) = build(0o36, '\u{1e}');
        match validate(&e, &crate::sut::opts_for(i), &mut |_| recs.clone()) {
            Tv::Agree { .. } => rep.count("separator_in_payload_handled"),
            Tv::Bad { kind, what, detail } => {
                // attribute it to the separator only if the same program with another character in its
                // place is fine
                let (e2, recs2) = build(0o123, 'S');
                let twin_ok = matches!(validate(&e2, &crate::sut::opts_for(i), &mut |_| recs2.clone()), Tv::Agree { .. });
                if twin_ok {
                    // the recorded finding is the undecodable stream; any other failure kind is a
                    // different signature (and so not covered by the known-findings entry)
                    let sig = if kind == "decode" { "C10:separator-in-payload".to_string() } else { format!("C10:separator-in-payload:{}", kind) };
                    rep.violation(
                        &sig,
                        &format!("a record whose payload contains the frame separator 0x1e cannot be split back ({}): {}", kind, what.chars().take(300).collect::<String>()),
                        &case,
                        detail,
                    )
                } else {
                    rep.violation(&format!("C10:{}:framed:separator-stream", kind), &what, &case, detail)
                }
            }
            _ => {}
        }
    });
    // many destinations interleaved with matchers so that tags pass 0x1e, 0x7f, 0xff
    let n_big = ctx.pick(6, 60);
    par_cases(ctx, "many", n_big, rep, |i, rep| {
        let mut r = Rng::for_case(ctx.seed, "many", i);
        // the first case has 300 pairwise distinct destinations, so that some tag exceeds 0xff whatever
        // numbering scheme the generator uses
        let dests = if i == 0 { 300 } else { 100 + r.usize(200) };
        let mut e: Option<Expression> = None;
        for d in 0..dests {
            let a = match if i == 0 { 0 } else { r.below(3) } {
                0 => Action::FilePrint(format!("out{}", d)),
                1 => Action::FilePrintNull(format!("out{}", d / 2)),
                _ => Action::FilePrintFormatted(format!("out{}", d), fmt_pool(r.below(4))),
            };
            let mut node = act(a);
            if r.chance(1, 3) {
                node = list(or(t(Test::Name(format!("n{}", d))), t(Test::True)), node);
            }
            e = Some(match e {
                None => node,
                Some(p) => list(p, node),
            });
        }
        check(&e.unwrap(), &format!("many:{}", i), rep, Some(format!("many{}", i)));
    });
    if ctx.only.is_none() {
        rep.floor("framed and plain programs observed", rep.get("framed_programs") > 50 && rep.get("plain_programs") > 20);
        rep.floor("tags beyond 0xff observed", rep.get_max("max_tag") > 0xff);
    }
}
