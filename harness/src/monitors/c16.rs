//! C16: concurrent scanner threads never tear or mix output records.

use crate::eval::{Dest, Interp};
use crate::findsem::reference_raw;
use crate::gen::*;
use crate::json::J;
use crate::policy::{read_program, target_dest};
use crate::rec::FileRecord;
use crate::report::{par_cases, Ctx, Report};
use crate::rng::Rng;
use crate::sched::{build_threads, explore, free_run, Bad, Config};
use crate::sut::{compile_g, opts_default};
use lipe_find_parser::ast::*;

fn action_for(k: u64, plain: bool) -> Option<Action> {
    let f_nl = vec![FormatElement::Field(FormatField::Basename), FormatElement::Special(FormatSpecial::Newline)];
    let f_raw = vec![FormatElement::Field(FormatField::Basename), FormatElement::Literal("|".into())];
    // multi-element formats, literal text first / last / between fields
    let f_lit_first = vec![FormatElement::Literal("file: ".into()), FormatElement::Field(FormatField::Basename), FormatElement::Special(FormatSpecial::Newline)];
    let f_mixed = vec![FormatElement::Literal("<".into()), FormatElement::Field(FormatField::Basename), FormatElement::Literal("|".into()), FormatElement::Field(FormatField::FileId), FormatElement::Literal(">".into())];
    Some(match (plain, k) {
        (_, 0) => Action::Print,
        (_, 1) => Action::PrintFid,
        (_, 2) => Action::PrintFormatted(f_nl),
        (false, 3) => Action::PrintNull,
        (false, 4) => Action::FilePrint("a".into()),
        (false, 5) => Action::FilePrintNull("a".into()),
        (false, 6) => Action::FilePrintFormatted("b".into(), f_raw.clone()),
        (false, 7) => Action::PrintFormatted(f_raw),
        (false, 8) => Action::FilePrint("b".into()),
        (_, 9) => Action::Quit,
        (_, 10) => Action::PrintFormatted(f_lit_first),
        (false, 11) => Action::PrintFormatted(f_mixed),
        (false, 12) => Action::FilePrintFormatted("a".into(), f_lit_first),
        #[allow(deprecated)]
        (_, 13) => Action::DefaultPrint, // hand-built implicit-print node next to other printers
        // constant formats (no directive at all): a code generator may special-case them
        (_, 14) => Action::PrintFormatted(vec![FormatElement::Literal("const line".into()), FormatElement::Special(FormatSpecial::Newline)]),
        (false, 15) => Action::PrintFormatted(vec![FormatElement::Literal("const|".into())]),
        (false, 16) => Action::FilePrintFormatted("a".into(), vec![FormatElement::Literal("hdr".into()), FormatElement::Special(FormatSpecial::Newline)]),
        _ => return None,
    })
}

fn build_expr(r: &mut Rng, printers: usize, plain: bool) -> Expression {
    let mut e: Option<Expression> = None;
    let mut have_framing = false;
    for j in 0..printers {
        let a = loop {
            let k = r.below(17);
            if let Some(a) = action_for(k, plain) {
                if !plain && j + 1 == printers && !have_framing && (k < 3 || k == 9 || k == 10 || k == 13 || k == 14) {
                    continue; // make sure a framed configuration really is framed
                }
                if (3..9).contains(&k) || k == 11 || k == 12 || k == 15 || k == 16 {
                    have_framing = true;
                }
                break a;
            }
        };
        // a third of the actions sit behind a condition on the record, so that the threads (whose records
        // are named t<thread>r<k>) take different paths through the policy and use different printers
        let node = match r.below(9) {
            0 => and(t(Test::Name(format!("t{}*", r.below(2)))), act(a)),
            1 => {
                let other = loop {
                    if let Some(b) = action_for(r.below(17), plain) {
                        if !matches!(b, Action::Quit) {
                            break b;
                        }
                    }
                };
                if matches!(other, Action::PrintNull | Action::FilePrint(_) | Action::FilePrintNull(_) | Action::FilePrintFormatted(_, _)) || matches!(&other, Action::PrintFormatted(f) if !matches!(f.last(), Some(FormatElement::Special(FormatSpecial::Newline)))) {
                    have_framing = true;
                }
                or(and(t(Test::Name("t1*".into())), act(a)), act(other))
            }
            2 => or(not(act(a)), t(Test::True)),
            _ => act(a),
        };
        e = Some(match e {
            None => node,
            Some(p) => list(p, node),
        });
    }
    e.unwrap_or(t(Test::True))
}

pub struct Prepared {
    pub cfg: Config,
    pub program: String,
    pub framed: bool,
}

pub fn prepare(e: &Expression, n_threads: usize, recs_per_thread: usize, explicit_threads: bool) -> Result<Prepared, String> {
    // the options are an input of compile(): half of the configurations ask for an explicit thread count
    let mut opts = opts_default();
    if explicit_threads {
        opts.threads = Some(n_threads as u32);
        opts.depth = true;
    }
    let (res, t0, _) = compile_g(e, &opts, "/dev/x").map_err(|p| format!("panic: {}", p.0))?;
    let c = res.map_err(|m| format!("refused: {}", m))?;
    let forms = read_program(&c.text).map_err(|e| format!("unreadable: {}", e))?;
    let mut records = vec![];
    let mut assign = vec![];
    for t in 0..n_threads {
        for k in 0..recs_per_thread {
            let mut rec = FileRecord::base((t * 10 + k) as u64);
            rec.relpath = format!("t{}r{}", t, k);
            rec.fid = format!("[fid{}{}]", t, k);
            records.push(rec);
            assign.push(t);
        }
    }
    let mut it = Interp::new(records.clone());
    it.w.defer = true;
    it.w.assign = assign.clone();
    it.run_program(&forms).map_err(|e| format!("run-time error: {}", e))?;
    if it.w.runs.len() != records.len() {
        return Err("policy did not run on every record".into());
    }
    let steps: Vec<Vec<crate::eval::Step>> = it.w.runs.iter().map(|r| r.steps.clone()).collect();
    let threads = build_threads(&steps, &assign, n_threads);
    let mut expected = vec![vec![]; n_threads];
    for (i, rec) in records.iter().enumerate() {
        let outs = reference_raw(e, rec, t0).map_err(|u| format!("undefined: {:?}", u))?;
        expected[assign[i]].extend(outs);
    }
    let table = c.io_map.as_ref().map(|m| m.iter().map(|(k, v)| (*k, target_dest(v))).collect());
    let port_dest: Vec<Dest> = it.w.ports.iter().map(|p| p.dest.clone()).collect();
    Ok(Prepared {
        cfg: Config { threads, expected, n_ports: it.w.ports.len(), n_mutex: it.w.mutex_owner.len(), port_dest, table },
        program: c.text.clone(),
        framed: c.io_map.is_some(),
    })
}

fn run_config(e: &Expression, n_threads: usize, rpt: usize, case: &str, seed: u64, dfs_budget: u64, random: u64, free: bool, rep: &mut Report) {
    rep.evaluations += 1;
    let p = match prepare(e, n_threads, rpt, seed % 2 == 1) {
        Ok(p) => p,
        Err(why) => {
            // every construct of this workload is supported: a program that cannot be executed in the
            // model cannot be decided here (three-valued verdict: inconclusive, not a pass)
            rep.count("config_not_prepared");
            rep.inconclusive.push(format!("C16 configuration {} could not be executed in the model runtime: {}", case, why.chars().take(200).collect::<String>()));
            return;
        }
    };
    let mut av = vec![];
    crate::findsem::actions(e, &mut av);
    let fid = av.iter().any(|a| matches!(a, Action::PrintFid));
    let mode = if p.framed { "framed" } else { "plain" };
    rep.count(&format!("configs_{}", mode));
    let ex = explore(&p.cfg, seed, dfs_budget, random);
    rep.add("schedules_run", ex.schedules);
    rep.add("distinct_interleavings", ex.distinct.len() as u64);
    rep.add("steps_executed", ex.steps_executed);
    // non-trivial: the threads' records really interleave (writers of one port switch at least twice)
    rep.add("nontrivial_by_construction", ex.alternating_schedules.min(ex.distinct.len() as u64));
    rep.add("schedules_with_a_blocked_thread", ex.blocked_schedules);
    rep.max("max_threads_blocked_at_once", ex.max_blocked_at_once as u64);
    if ex.exhaustive {
        rep.count("configs_explored_exhaustively");
    } else {
        rep.count("configs_sampled");
    }
    let lock_events: usize = p.cfg.threads.iter().map(|t| t.iter().filter(|s| matches!(s, crate::eval::StepKind::Lock(_))).count()).sum();
    let write_events: usize = p.cfg.threads.iter().map(|t| t.iter().filter(|s| matches!(s, crate::eval::StepKind::Write(_, _))).count()).sum();
    rep.add("lock_events_per_schedule_sum", lock_events as u64);
    rep.add("write_events_per_schedule_sum", write_events as u64);
    let detail = |trace: &Vec<usize>| J::obj(vec![("expression", J::s(render_default(e).unwrap_or_default())), ("threads", J::Int(n_threads as i128)), ("records_per_thread", J::Int(rpt as i128)), ("schedule", J::s(format!("{:?}", trace))), ("program", J::s(&p.program))]);
    let suffix = if fid { ":print-file-fid" } else { "" };
    match &ex.bad {
        // no common mutex but no torn schedule either (e.g. each record is one atomic write): the property,
        // which quantifies over interleavings of the write steps, holds on everything explored
        Some(Bad::Lockset { .. }) => rep.count("lockset_warnings_without_torn_schedule"),
        Some(Bad::Torn { detail: d, trace }) => rep.violation(&format!("C16:torn:{}{}", mode, suffix), &format!("{} (schedule {:?})", d, trace), case, detail(trace)),
        Some(Bad::Deadlock { detail: d, trace }) => rep.violation(&format!("C16:deadlock:{}", mode), d, case, detail(trace)),
        None => {
            if free {
                for k in 0..8 {
                    let fr = match free_run(&p.cfg, seed + k) {
                        Ok(v) => v,
                        Err(w) => {
                            rep.inconclusive.push(format!("{} ({})", w, case));
                            return;
                        }
                    };
                    if let Some(b) = fr {
                        let (sig, d) = match b {
                            Bad::Torn { detail, .. } => ("torn", detail),
                            Bad::Deadlock { detail, .. } => ("deadlock", detail),
                            Bad::Lockset { detail, .. } => ("lockset", detail),
                        };
                        rep.violation(&format!("C16:{}:{}:free-running{}", sig, mode, suffix), &d, case, detail(&vec![]));
                        return;
                    }
                    rep.count("free_runs");
                }
            }
            if rep.samples.is_empty() || (rep.samples.len() < 5 && ex.distinct.len() > 3) {
                rep.sample(J::obj(vec![
                    ("expression", J::s(render_default(e).unwrap_or_default())),
                    ("mode", J::s(mode)),
                    ("threads", J::Int(n_threads as i128)),
                    ("records_per_thread", J::Int(rpt as i128)),
                    ("steps_per_thread", J::s(format!("{:?}", p.cfg.threads.iter().map(|t| t.len()).collect::<Vec<_>>()))),
                    ("distinct_interleavings", J::Int(ex.distinct.len() as i128)),
                    ("exhaustive", J::Bool(ex.exhaustive)),
                    ("first_thread_steps", J::s(format!("{:?}", p.cfg.threads[0].iter().take(8).collect::<Vec<_>>()))),
                ]));
            }
        }
    }
}

pub fn run(ctx: &Ctx, rep: &mut Report) {
    // the configurations the property states: 1..3 printers x 2..3 threads x 1..2 print calls each
    let n = ctx.pick(60, 2000);
    let (dfs, random) = if ctx.tier_thorough { (200_000, 50_000) } else { (20_000, 2_000) };
    par_cases(ctx, "config", n, rep, |i, rep| {
        let mut r = Rng::for_case(ctx.seed, "config", i);
        let printers = 1 + (i % 3) as usize;
        let threads = 2 + ((i / 3) % 2) as usize;
        let rpt = 1 + ((i / 6) % 2) as usize;
        let plain = (i / 12) % 2 == 0;
        let e = if (i / 24) % 5 == 4 && plain { t(Test::True) } else { build_expr(&mut r, printers, plain) };
        run_config(&e, threads, rpt, &format!("config:{}", i), ctx.seed ^ i, dfs, random, ctx.tier_thorough, rep);
    });
    // high identifiers: many matchers before the printers so that printer indices / frame tags pass
    // 0x7f and 0xff (the generator formats them, and may special-case them)
    let n_high = ctx.pick(12, 200);
    par_cases(ctx, "highindex", n_high, rep, |i, rep| {
        let mut r = Rng::for_case(ctx.seed, "highindex", i);
        let k = [0usize, 70, 130, 260][(i % 4) as usize] + r.usize(5);
        let mut e: Option<Expression> = None;
        for j in 0..k {
            let node = or(t(Test::Name(format!("n{}", j))), t(Test::True));
            e = Some(match e {
                None => node,
                Some(p) => list(p, node),
            });
        }
        let printers = 1 + r.usize(3);
        let tail = build_expr(&mut r, printers, (i / 4) % 3 == 0);
        let e = match e {
            None => tail,
            Some(p) => list(p, tail),
        };
        run_config(&e, 2 + (i % 2) as usize, 1 + ((i / 2) % 2) as usize, &format!("highindex:{}", i), ctx.seed ^ (i << 4), dfs, random, ctx.tier_thorough, rep);
    });
    // stress configurations: sampled schedules only
    let n_stress = ctx.pick(6, 100);
    par_cases(ctx, "stress", n_stress, rep, |i, rep| {
        let mut r = Rng::for_case(ctx.seed, "stress", i);
        let e = build_expr(&mut r, 6, i % 2 == 0);
        run_config(&e, 4, 8, &format!("stress:{}", i), ctx.seed ^ (i << 8), 2_000, if ctx.tier_thorough { 20_000 } else { 1_000 }, ctx.tier_thorough, rep);
    });
    let d = rep.get("distinct_interleavings");
    rep.extra.push(("distinct_interleavings".into(), J::Int(d as i128)));
    if ctx.only.is_none() {
        rep.floor("framed and plain configurations explored", rep.get("configs_framed") > 5 && rep.get("configs_plain") > 5);
        rep.floor("at least two distinct interleavings per configuration on average", d >= 2 * (rep.get("configs_framed") + rep.get("configs_plain")));
        // a design without mutexes (one write per record) has nothing to block on
        rep.floor("threads observed blocked on a mutex (when the programs lock at all)", rep.get("lock_events_per_schedule_sum") == 0 || rep.get_max("max_threads_blocked_at_once") >= 1);
    }
}
