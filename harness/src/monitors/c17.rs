//! C17: debug and release builds behave identically. This side produces one digest line per input;
//! the driver runs it under both profiles and diffs (see tools/legs.py).

use crate::corpus;
use crate::gen::*;
use crate::monitors::c03::{exercise, normalise_clock};
use crate::rng::{hash_str, Rng};
use crate::sut::{compile_g, io_map_sorted, opts_default};
use lipe_find_parser::ast::*;

pub fn tree_case(seed: u64, i: u64) -> Expression {
    let mut r = Rng::for_case(seed, "trees", i);
    if i % 4 == 3 {
        // same-field comparison pairs with boundary constants (incl. counts no other stream dares)
        return pair_case(&mut r, true);
    }
    let leaves = 1 + r.usize(5);
    gen_tree(&mut r, leaves, &mut |r| match r.below(12) {
        0 => Expression::Positional(PositionalOption::XDev),
        1 => t(gen_unsupported_test_with(r.usize(UNSUPPORTED_TESTS), r)),
        2 => act(Action::PrintFormatted(vec![FormatElement::Field(unsupported_field_by_index(r.usize(UNSUPPORTED_FIELDS)))])),
        3 => {
            // sizes whose byte size does not fit (constructor route)
            let s = mk_size(3 + r.below(4), u64::MAX >> r.below(20));
            t(Test::Size(gen_cmp(r, s)))
        }
        4 => gen_odd_leaf(r), // degenerate values only a hand-built tree carries
        _ => gen_leaf(r, 30),
    })
}

pub fn record_tree(e: &Expression) -> String {
    match compile_g(e, &opts_default(), "/dev/mdt0") {
        Err(p) => format!("Panic({})", p.0.split(" @ ").next().unwrap_or("")),
        Ok((Err(m), _, _)) => format!("CompileErr({})", m),
        Ok((Ok(c), t0, t1)) => format!("Ok|{}|{}", normalise_clock(&c.text, t0, t1), io_map_sorted(&c.io_map)),
    }
}

pub fn record_text(text: &str) -> String {
    match exercise(text) {
        Ok(r) => r,
        Err(p) => format!("Panic({})", p.0.split(" @ ").next().unwrap_or("")),
    }
}

pub fn tree_count(thorough: bool, scale: f64) -> u64 {
    (((if thorough { 300_000 } else { 20_000 }) as f64) * scale).max(1.0) as u64
}

/// Full record of one case (for witnesses).
pub fn record(seed: u64, stream: &str, i: u64) -> (String, String) {
    if stream == "trees" {
        let e = tree_case(seed, i);
        (format!("{:?}", e), record_tree(&e))
    } else {
        let t = corpus::input(seed, stream, i);
        let r = record_text(&t);
        (t, r)
    }
}

pub fn digest(seed: u64, thorough: bool, scale: f64, threads: usize) -> Vec<String> {
    let mut jobs: Vec<(String, u64)> = vec![];
    for s in corpus::STREAMS {
        jobs.push((s.to_string(), corpus::count(s, thorough, scale)));
    }
    jobs.push(("trees".to_string(), tree_count(thorough, scale)));
    let mut out = vec![];
    for (stream, n) in jobs {
        let chunks: Vec<Vec<String>> = std::thread::scope(|sc| {
            let mut hs = vec![];
            for t in 0..threads as u64 {
                let stream = stream.clone();
                hs.push(
                    std::thread::Builder::new()
                        .stack_size(64 << 20)
                        .spawn_scoped(sc, move || {
                            let mut v = vec![];
                            let mut i = t;
                            while i < n {
                                let (_, rec) = record(seed, &stream, i);
                                let kind = if rec.starts_with("Panic") {
                                    "P"
                                } else if rec.starts_with("ParseErr") {
                                    "E"
                                } else if rec.contains("CompileErr(") {
                                    "C"
                                } else {
                                    "K"
                                };
                                v.push(format!("{}:{} {:016x} {}", stream, i, hash_str(&rec), kind));
                                i += threads as u64;
                            }
                            v
                        })
                        .unwrap(),
                );
            }
            hs.into_iter().map(|h| h.join().unwrap()).collect()
        });
        for c in chunks {
            out.extend(c);
        }
    }
    out
}
