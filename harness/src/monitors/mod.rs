pub mod c01;
pub mod c02;
pub mod c03;
pub mod c04;
pub mod c05;
pub mod c06;
pub mod c07;
pub mod c08;
pub mod c09;
pub mod c10;
pub mod c11;
pub mod c12;
pub mod c13;
pub mod c19;
pub mod c20;
pub mod c15;
pub mod c16;
pub mod c17;
pub mod c18;
pub mod c14;

use lipe_find_parser::ast::{Action, Expression, Test};

pub fn variant<T: std::fmt::Debug>(x: &T) -> String {
    let s = format!("{:?}", x);
    s.split(|c: char| c == '(' || c == ' ' || c == '{').next().unwrap_or("").to_string()
}

/// Leaf kinds of a tree (for signatures and coverage).
pub fn leaf_kinds(e: &Expression) -> Vec<String> {
    let mut ts: Vec<&Test> = vec![];
    let mut acts: Vec<&Action> = vec![];
    crate::findsem::tests(e, &mut ts);
    crate::findsem::actions(e, &mut acts);
    let mut v: Vec<String> = ts.iter().map(|t| variant(*t)).chain(acts.iter().map(|a| variant(*a))).collect();
    v.sort();
    v.dedup();
    v
}
