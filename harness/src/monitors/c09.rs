//! C09: implicit print is added exactly when no action is present.

use crate::findsem::has_action;
use crate::gen::*;
use crate::json::J;
use crate::rec::FileRecord;
use crate::report::{par_cases, Ctx, Report};
use crate::rng::Rng;
use crate::sut::{opts_default, parse_g};
use crate::tv::{validate, Tv};
use lipe_find_parser::ast::*;

fn leaf(k: u64) -> Expression {
    match k {
        0 => t(Test::True),
        1 => t(Test::False),
        2 => t(Test::Name("a".into())),
        3 => act(Action::Print),
        4 => act(Action::Quit),
        _ => act(Action::FilePrint("f".into())),
    }
}

struct Counts {
    t: Vec<u64>, // t[n] = number of trees with n nodes
}

impl Counts {
    fn new(max: usize) -> Counts {
        let mut t = vec![0u64; max + 1];
        if max >= 1 {
            t[1] = 6;
        }
        for n in 2..=max {
            let mut s = 0;
            for i in 1..n - 1 {
                s += t[i] * t[n - 1 - i];
            }
            t[n] = t[n - 1] + 3 * s;
        }
        Counts { t }
    }
    fn unrank(&self, n: usize, mut idx: u64) -> Expression {
        if n == 1 {
            return leaf(idx);
        }
        if idx < self.t[n - 1] {
            return not(self.unrank(n - 1, idx));
        }
        idx -= self.t[n - 1];
        let mut s = 0;
        for i in 1..n - 1 {
            s += self.t[i] * self.t[n - 1 - i];
        }
        let op = idx / s;
        let mut rem = idx % s;
        for i in 1..n - 1 {
            let block = self.t[i] * self.t[n - 1 - i];
            if rem < block {
                let a = self.unrank(i, rem / self.t[n - 1 - i]);
                let b = self.unrank(n - 1 - i, rem % self.t[n - 1 - i]);
                return match op {
                    0 => and(a, b),
                    1 => or(a, b),
                    _ => list(a, b),
                };
            }
            rem -= block;
        }
        unreachable!()
    }
}

fn records() -> Vec<FileRecord> {
    let mut a = FileRecord::base(0);
    a.relpath = "d/a".into();
    let mut b = FileRecord::base(1);
    b.relpath = "d/b".into();
    vec![a, b]
}

/// action that is neither the root nor the right-most leaf
fn interesting(e: &Expression) -> bool {
    fn rightmost(e: &Expression) -> &Expression {
        match e {
            Expression::Operator(op) => match op.as_ref() {
                Operator::Not(x) | Operator::Precedence(x) => rightmost(x),
                Operator::And(_, b) | Operator::Or(_, b) | Operator::List(_, b) => rightmost(b),
            },
            x => x,
        }
    }
    fn count_actions(e: &Expression) -> usize {
        let mut v = vec![];
        crate::findsem::actions(e, &mut v);
        v.len()
    }
    let n = count_actions(e);
    if n == 0 {
        return matches!(e, Expression::Operator(op) if matches!(op.as_ref(), Operator::Or(_, _) | Operator::List(_, _)));
    }
    if matches!(e, Expression::Action(_)) {
        return false;
    }
    let rm_is_action = matches!(rightmost(e), Expression::Action(_));
    n > 1 || !rm_is_action
}

fn check(e: &Expression, case: &str, rep: &mut Report, by_construction: bool) {
    rep.evaluations += 1;
    let inter = interesting(e);
    if inter {
        if by_construction {
            rep.add("nontrivial_by_construction", 1);
        } else {
            rep.nontrivial(&format!("{:?}", e));
        }
    }
    let with_action = has_action(e);
    rep.count(if with_action { "trees_with_action" } else { "trees_without_action" });
    match validate(e, &crate::sut::opts_for(crate::rng::hash_str(case)), &mut |_| records()) {
        Tv::Agree { run, .. } => {
            if !with_action {
                rep.add("implicit_prints_observed", run.outcomes.iter().filter(|o| !o.outs.is_empty()).count() as u64);
            }
            if rep.samples.is_empty() || (inter && rep.samples.len() < 6 && rep.evaluations % 53 == 0) {
                rep.sample(J::obj(vec![
                    ("expression", J::s(render_default(e).unwrap_or_default())),
                    ("has_action", J::Bool(with_action)),
                    ("outputs_on_a_b", J::s(format!("{:?}", run.outcomes.iter().map(|o| o.outs.clone()).collect::<Vec<_>>()))),
                ]));
            }
        }
        Tv::Skip(_) => rep.skipped_unspecified += 1,
        Tv::Refused(_) => rep.count("refused_by_compile"), // C12's subject
        Tv::Bad { kind, what, mut detail } => {
            detail.push("expression", J::s(render_default(e).unwrap_or_default()));
            let sig = format!("C09:{}:{}", kind, if with_action { "with-action" } else { "without-action" });
            rep.violation(&sig, &what, case, detail);
        }
    }
}

pub fn run(ctx: &Ctx, rep: &mut Report) {
    let max_nodes = if ctx.tier_thorough { 9 } else { 5 };
    let counts = Counts::new(max_nodes);
    let mut total = 0;
    for n in 1..=max_nodes {
        total += counts.t[n];
    }
    par_cases(ctx, "enum", total, rep, |i, rep| {
        let mut idx = i;
        let mut n = 1;
        while idx >= counts.t[n] {
            idx -= counts.t[n];
            n += 1;
        }
        let e = counts.unrank(n, idx);
        check(&e, &format!("enum:{}", i), rep, true);
    });
    rep.exhaustive = Some(true);
    rep.extra.push(("exhaustive_bound".into(), J::s(format!("all {} trees of 1..{} nodes over leaves {{true,false,name a,print,quit,fprint f}} and operators {{!,and,or,list}}", total, max_nodes))));
    let n_rand = ctx.pick(3000, 1_000_000);
    par_cases(ctx, "random", n_rand, rep, |i, rep| {
        let mut r = Rng::for_case(ctx.seed, "random", i);
        let leaves = 4 + r.usize(12);
        let bias = [0, 5, 20][r.usize(3)];
        let e = gen_tree(&mut r, leaves, &mut |r| if r.below(100) < bias { leaf(3 + r.below(3)) } else { leaf(r.below(3)) });
        // one random tree in eight carries the deprecated implicit-print action node somewhere: it is an
        // action like any other (nothing is added), and prints the path
        let e = if i % 8 == 5 {
            #[allow(deprecated)]
            let dp = act(Action::DefaultPrint);
            match r.below(4) {
                0 => and(e, dp),
                1 => or(dp, e),
                2 => list(not(dp), e),
                _ => and(t(Test::False), or(e, dp)),
            }
        } else {
            e
        };
        // a third of the random trees carry explicit grouping nodes (hand-built trees only)
        let e = if i % 3 == 0 { with_groups(&e, &mut r, 3) } else { e };
        check(&e, &format!("random:{}", i), rep, false);
    });
    // user strings that spell pieces of the emitted program (a decision taken by looking at the emitted text
    // instead of the tree goes wrong on them), in action-free expressions and next to actions
    let sp = program_spellings();
    let n_sp = ctx.pick(sp.len() as u64, 40 * sp.len() as u64);
    par_cases(ctx, "spelling", n_sp, rep, |i, rep| {
        let mut r = Rng::for_case(ctx.seed, "spelling", i);
        let w = sp[(i as usize) % sp.len()].clone();
        let carrier = match r.below(5) {
            0 => t(Test::Pool(w)),
            1 => t(Test::Xattr(w)),
            2 => t(Test::XattrMatch("user".into(), w)),
            3 => t(Test::Name(w)),
            _ => t(Test::InsensitivePath(w)),
        };
        let other = leaf(r.below(6));
        let e = match r.below(5) {
            0 => carrier,
            1 => or(carrier, other),
            2 => and(other, carrier),
            3 => not(carrier),
            _ => list(carrier, other),
        };
        rep.count("program_spelling_strings");
        check(&e, &format!("spelling:{}", i), rep, false);
    });
    let n_text = ctx.pick(500, 20_000);
    par_cases(ctx, "text", n_text, rep, |i, rep| {
        let mut r = Rng::for_case(ctx.seed, "text", i);
        let leaves = 1 + r.usize(6);
        let e = gen_tree(&mut r, leaves, &mut |r| leaf(r.below(6)));
        if let Some(text) = render_default(&e) {
            if let Ok(Ok((_, parsed))) = parse_g(&text) {
                check(&parsed, &format!("text:{}", i), rep, false);
            }
        }
    });
    if ctx.only.is_none() {
        rep.floor("trees with and without actions observed", rep.get("trees_with_action") > 100 && rep.get("trees_without_action") > 50);
        rep.floor("implicit prints observed", rep.get("implicit_prints_observed") > 20);
    }
}
