//! C15: parsing and compiling are deterministic functions of their input (plus the clock window).

use crate::gen::*;
use crate::json::J;
use crate::monitors::c03::normalise_clock;
use crate::report::{par_cases, Ctx, Report};
use crate::rng::{hash_str, Rng};
use crate::sut::{compile_g, io_map_sorted, now_secs, opts_default, parse_g};
use lipe_find_parser::ast::*;

fn is_time(x: &Test) -> bool {
    matches!(x, Test::AccessTime(_) | Test::ChangeTime(_) | Test::ModifyTime(_))
}

/// Expression biased to many matchers / printers (hash-order sensitive).
pub fn gen_resource_heavy(r: &mut Rng, allow_time: bool, small_constants: bool) -> Expression {
    let leaves = 2 + r.usize(14);
    gen_tree(r, leaves, &mut |r| match r.below(10) {
        0 | 1 => t(Test::Name(format!("n{}{}", r.below(40), ["", "*", "?"][r.usize(3)]))),
        2 => t(Test::InsensitiveName(format!("N{}", r.below(40)))),
        3 => t(Test::Path(format!("d{}/*", r.below(40)))),
        4 | 5 => act(Action::FilePrint(format!("out{}", r.below(30)))),
        6 => act(Action::FilePrintNull(format!("out{}", r.below(30)))),
        7 if allow_time => {
            let ts = mk_time(r.below(4), r.below(1000));
            let c = gen_cmp(r, ts);
            t(match r.below(3) {
                0 => Test::AccessTime(c),
                1 => Test::ChangeTime(c),
                _ => Test::ModifyTime(c),
            })
        }
        8 if !small_constants => gen_leaf(r, 40),
        _ => {
            let v = r.below(100_000) as u32;
            t(Test::UserId(gen_cmp(r, v)))
        }
    })
}

pub fn int_tokens(text: &str) -> Vec<i128> {
    // values, not spellings: `(+ 1791000000 200122)` and `#x6ac3d0ba` are integer constants too
    let folded = crate::monitors::c03::fold_arith(text);
    let text = folded.as_str();
    let b = text.as_bytes();
    let mut out = vec![];
    let mut i = 0;
    let mut in_str = false;
    while i < b.len() {
        if b[i] == b'"' && (i == 0 || b[i - 1] != b'\\') {
            in_str = !in_str;
            i += 1;
            continue;
        }
        if !in_str && b[i].is_ascii_digit() && (i == 0 || !(b[i - 1].is_ascii_alphanumeric() || b[i - 1] == b':' || b[i - 1] == b'#' || b[i - 1] == b'\\')) {
            let mut j = i;
            while j < b.len() && b[j].is_ascii_digit() {
                j += 1;
            }
            if let Ok(v) = text[i..j].parse::<i128>() {
                out.push(v);
            }
            i = j;
        } else {
            i += 1;
        }
    }
    out
}

fn count_res(e: &Expression) -> usize {
    let mut ts = vec![];
    let mut av = vec![];
    crate::findsem::tests(e, &mut ts);
    crate::findsem::actions(e, &mut av);
    ts.iter().filter(|x| matches!(x, Test::Name(_) | Test::InsensitiveName(_) | Test::Path(_) | Test::InsensitivePath(_))).count() + av.len()
}

fn has_time(e: &Expression) -> bool {
    let mut ts = vec![];
    crate::findsem::tests(e, &mut ts);
    ts.iter().any(|x| is_time(x))
}

pub fn run(ctx: &Ctx, rep: &mut Report) {
    let n = ctx.pick(500, 20_000);
    let reps = ctx.pick(5, 10);
    par_cases(ctx, "repeat", n, rep, |i, rep| {
        let mut r = Rng::for_case(ctx.seed, "repeat", i);
        let case = format!("repeat:{}", i);
        let e = gen_resource_heavy(&mut r, i % 3 == 0, false);
        rep.evaluations += 1;
        let timed = has_time(&e);
        if count_res(&e) >= 3 || timed {
            rep.nontrivial(&format!("{:?}", e));
        }
        // parse twice
        if let Some(text) = render_default(&e) {
            let a = parse_g(&text);
            let b = parse_g(&text);
            let same = match (&a, &b) {
                (Ok(Ok((o1, t1))), Ok(Ok((o2, t2)))) => t1 == t2 && format!("{:?}", o1) == format!("{:?}", o2),
                (Ok(Err(x)), Ok(Err(y))) => x == y,
                (Err(x), Err(y)) => x == y,
                _ => false,
            };
            if !same {
                rep.violation("C15:parse-not-repeatable", &format!("parsing {:?} twice gave different results", text), &case, J::obj(vec![("input", J::s(&text))]));
                return;
            }
            rep.count("parse_pairs_equal");
        }
        // compile repeatedly, interleaved with unrelated compilations
        let mut first: Option<(String, String)> = None;
        for k in 0..reps {
            let unrelated = gen_resource_heavy(&mut r, false, false);
            let _ = compile_g(&unrelated, &opts_default(), "/u");
            let (res, t0, t1) = match compile_g(&e, &crate::sut::opts_for(i), "/dev/d") {
                Ok(v) => v,
                Err(_) => return, // C03's subject
            };
            let c = match res {
                Ok(c) => c,
                Err(_) => return,
            };
            let text = if timed { normalise_clock(&c.text, t0, t1) } else { c.text.clone() };
            let map = io_map_sorted(&c.io_map);
            match &first {
                None => first = Some((text, map)),
                Some((ft, fm)) => {
                    if *ft != text {
                        rep.violation(if timed { "C15:program-differs:timed" } else { "C15:program-differs" }, &format!("compile #{} of the same tree gave a different program", k + 1), &case, J::obj(vec![("first", J::s(ft)), ("later", J::s(&text))]));
                        return;
                    }
                    if *fm != map {
                        rep.violation("C15:table-differs", &format!("compile #{} of the same tree gave a different destination table", k + 1), &case, J::obj(vec![("first", J::s(fm)), ("later", J::s(&map))]));
                        return;
                    }
                }
            }
            rep.count("compilations_compared");
        }
        if rep.samples.is_empty() || (rep.samples.len() < 4 && count_res(&e) >= 5) {
            rep.sample(J::obj(vec![("expression", J::s(render_default(&e).unwrap_or_default().chars().take(300).collect::<String>())), ("compilations", J::Int(reps as i128)), ("verdict", J::s("byte-identical programs and equal tables"))]));
        }
    });
    // clock window on the sub-workload whose own constants are all below 10^8
    let n_clock = ctx.pick(2000, 50_000);
    par_cases(ctx, "clock", n_clock, rep, |i, rep| {
        let mut r = Rng::for_case(ctx.seed, "clock", i);
        let case = format!("clock:{}", i);
        let e = gen_resource_heavy(&mut r, true, true);
        rep.evaluations += 1;
        let timed = has_time(&e);
        // a handful of cases: compile, sleep 1.1 s, compile again - a cached clock shows in the 2nd window
        let rounds = if i % 400 == 1 && timed { 2 } else { 1 };
        for round in 0..rounds {
            if round == 1 {
                std::thread::sleep(std::time::Duration::from_millis(1100));
                rep.count("recompiled_after_sleep");
            }
            let (res, t0, t1) = match compile_g(&e, &crate::sut::opts_for(i), "/d") {
                Ok(v) => v,
                Err(_) => return,
            };
            let c = match res {
                Ok(c) => c,
                Err(_) => return,
            };
            let toks: Vec<i128> = int_tokens(&c.text).into_iter().filter(|v| *v >= 1_000_000_000).collect();
            rep.add("clock_tokens_seen", toks.len() as u64);
            for v in &toks {
                if *v < t0 || *v > t1 {
                    rep.violation(
                        if round == 1 { "C15:clock-stale" } else { "C15:clock-outside-window" },
                        &format!("embedded second {} lies outside the compile call's window [{}, {}]", v, t0, t1),
                        &case,
                        J::obj(vec![("program", J::s(&c.text))]),
                    );
                    return;
                }
            }
            if timed && toks.is_empty() {
                rep.violation("C15:clock-missing", "a time test was compiled but no current-time constant appears in the program", &case, J::obj(vec![("program", J::s(&c.text))]));
                return;
            }
            if timed {
                rep.count("clock_windows_checked");
                rep.nontrivial(&format!("clock{:?}", e));
            }
        }
    });
    // the second belongs to the compile call even when the program is rendered later
    par_cases(ctx, "late", ctx.pick(4, 32), rep, |i, rep| {
        rep.evaluations += 1;
        let case = format!("late:{}", i);
        let ts = crate::gen::mk_time(i % 4, 3 + i);
        let cmpn = lipe_find_parser::ast::Comparison::GreaterThan(ts);
        let e = crate::gen::t(match i % 3 {
            0 => lipe_find_parser::ast::Test::ModifyTime(cmpn),
            1 => lipe_find_parser::ast::Test::AccessTime(cmpn),
            _ => lipe_find_parser::ast::Test::ChangeTime(cmpn),
        });
        let r = crate::sut::guard(|| {
            let t0 = now_secs();
            let c = lipe_find_parser::compile(&e, &crate::sut::opts_default()).ok()?;
            let t1 = now_secs();
            std::thread::sleep(std::time::Duration::from_millis(1200));
            Some((t0, t1, c.scheme("/d")))
        });
        match r {
            Ok(Some((t0, t1, text))) => {
                let toks: Vec<i128> = int_tokens(&text).into_iter().filter(|v| *v >= 1_000_000_000).collect();
                if toks.is_empty() {
                    rep.violation("C15:clock-missing", "a time test was compiled but no current-time constant appears in the program", &case, J::obj(vec![("program", J::s(&text))]));
                } else if let Some(v) = toks.iter().find(|v| **v < t0 || **v > t1) {
                    rep.violation("C15:clock-read-at-render-time", &format!("program rendered 1.2 s after compile() returned embeds second {} outside the compile window [{}, {}]", v, t0, t1), &case, J::obj(vec![("program", J::s(&text))]));
                } else {
                    rep.count("late_render_windows_checked");
                }
            }
            Ok(None) => rep.count("late_not_compiled"),
            Err(p) => rep.violation(&format!("C15:{}", p.sig()), &p.0, &case, J::Null),
        }
    });
    // "compiling equal results gives byte-identical programs": equality is the library's own `==` on the
    // public types. Pairs (e, e') where e' re-expresses some leaves of e (the same duration or size in
    // another unit, an equal-valued fresh copy, a neighbouring constant, the other case rule): whenever the
    // library says e == e', the two programs and tables must be identical.
    let n_eq = ctx.pick(1500, 300_000);
    par_cases(ctx, "equal", n_eq, rep, |i, rep| {
        use lipe_find_parser::ast::{Comparison, Expression, Operator, Size, Test, TimeSpec};
        let mut r = Rng::for_case(ctx.seed, "equal", i);
        let case = format!("equal:{}", i);
        fn reunit_time(ts: &TimeSpec) -> TimeSpec {
            match ts {
                TimeSpec::Hour(n) if *n < 1 << 40 => TimeSpec::Minute(n * 60),
                TimeSpec::Minute(n) if n % 60 == 0 => TimeSpec::Hour(n / 60),
                TimeSpec::Minute(n) if *n < 1 << 40 => TimeSpec::Second(n * 60),
                TimeSpec::Day(n) if *n < 1 << 40 => TimeSpec::Hour(n * 24),
                TimeSpec::Second(n) if n % 60 == 0 => TimeSpec::Minute(n / 60),
                other => other.clone(),
            }
        }
        fn reunit_size(sz: &Size) -> Size {
            match sz {
                Size::KiloByte(n) if *n < 1 << 40 => Size::Byte(n * 1024),
                Size::MegaByte(n) if *n < 1 << 30 => Size::KiloByte(n * 1024),
                Size::Block(n) if *n < 1 << 40 => Size::Byte(n * 512),
                Size::Word(n) if *n < 1 << 40 => Size::Byte(n * 2),
                Size::Byte(n) if n % 1024 == 0 => Size::KiloByte(n / 1024),
                Size::GigaByte(n) if *n < 1 << 20 => Size::MegaByte(n * 1024),
                other => other.clone(),
            }
        }
        fn cmap<T: Clone>(c: &Comparison<T>, f: impl Fn(&T) -> T) -> Comparison<T> {
            match c {
                Comparison::Equal(v) => Comparison::Equal(f(v)),
                Comparison::GreaterThan(v) => Comparison::GreaterThan(f(v)),
                Comparison::LesserThan(v) => Comparison::LesserThan(f(v)),
            }
        }
        fn vary(e: &Expression, r: &mut Rng) -> Expression {
            match e {
                Expression::Operator(op) => Expression::Operator(std::rc::Rc::new(match op.as_ref() {
                    Operator::Precedence(x) => Operator::Precedence(vary(x, r)),
                    Operator::Not(x) => Operator::Not(vary(x, r)),
                    Operator::And(a, b) => Operator::And(vary(a, r), vary(b, r)),
                    Operator::Or(a, b) => Operator::Or(vary(a, r), vary(b, r)),
                    Operator::List(a, b) => Operator::List(vary(a, r), vary(b, r)),
                })),
                Expression::Test(x) if r.chance(1, 2) => Expression::Test(match x {
                    Test::AccessTime(c) => Test::AccessTime(cmap(c, reunit_time)),
                    Test::ChangeTime(c) => Test::ChangeTime(cmap(c, reunit_time)),
                    Test::ModifyTime(c) => Test::ModifyTime(cmap(c, reunit_time)),
                    Test::Size(c) => Test::Size(cmap(c, reunit_size)),
                    _ => return crate::gen::related_leaf(e, r),
                }),
                other => {
                    if r.chance(1, 4) {
                        crate::gen::related_leaf(other, r)
                    } else {
                        other.clone()
                    }
                }
            }
        }
        let leaves = 1 + r.usize(5);
        let e = gen_tree(&mut r, leaves, &mut |r| match r.below(5) {
            0 => {
                let v = crate::gen::mk_time(r.below(4), 60 * r.below(50));
                t(Test::ModifyTime(crate::gen::gen_cmp(r, v)))
            }
            1 => {
                let v = crate::gen::mk_size(r.below(7), 1024 * r.below(9));
                t(Test::Size(crate::gen::gen_cmp(r, v)))
            }
            2 => {
                let v = crate::gen::mk_time(r.below(4), r.below(200));
                t(Test::AccessTime(crate::gen::gen_cmp(r, v)))
            }
            _ => gen_leaf(r, 30),
        });
        let e2 = vary(&e, &mut r);
        rep.evaluations += 1;
        let same = match crate::sut::guard(|| e == e2) {
            Ok(b) => b,
            Err(p) => {
                rep.violation(&format!("C15:{}", p.sig()), &format!("comparing two trees with == panicked: {}", p.0), &case, J::Null);
                return;
            }
        };
        if !same {
            rep.count("pairs_not_equal");
            return;
        }
        let opts = crate::sut::opts_for(i);
        let (a, b) = match (compile_g(&e, &opts, "/d"), compile_g(&e2, &opts, "/d")) {
            (Ok(a), Ok(b)) => (a, b),
            _ => return, // C03's subject
        };
        let rec = |x: (Result<crate::sut::Compiled, String>, i128, i128)| match x.0 {
            Ok(c) => format!("{}|{}", normalise_clock(&c.text, x.1, x.2), io_map_sorted(&c.io_map)),
            Err(m) => format!("Err({})", m),
        };
        let (ra, rb) = (rec(a), rec(b));
        if ra != rb {
            rep.violation(
                "C15:equal-trees-different-programs",
                &format!("two trees the library's == calls equal compile to different results: {:?} vs {:?}", e, e2),
                &case,
                J::obj(vec![("first_tree", J::s(format!("{:?}", e))), ("second_tree", J::s(format!("{:?}", e2))), ("first", J::s(&ra)), ("second", J::s(&rb))]),
            );
        } else {
            rep.count("equal_pairs_with_identical_results");
        }
    });
    // call-history independence: on ONE thread (thread-local or static state accumulates there) the same
    // mixed corpus - valid, invalid, boundary inputs and hand-built trees - is recorded in order, then a
    // second time in reverse order after everything else has run. A result that depends on what was parsed
    // or compiled before (leaked counters, caches, registries) differs between the passes.
    if ctx.wants("order") {
        let k = ctx.pick(30_000, 600_000);
        let seed = ctx.seed;
        let res = std::thread::scope(|sc| {
            std::thread::Builder::new()
                .stack_size(64 << 20)
                .spawn_scoped(sc, move || {
                    let streams = ["grammar", "mutate", "args2", "numeric", "vocab", "multibyte", "longwords", "special", "trees"];
                    let ids: Vec<(usize, u64)> = (0..k).map(|i| ((i % streams.len() as u64) as usize, i / streams.len() as u64)).collect();
                    let rec = |(s, i): (usize, u64)| crate::monitors::c17::record(seed, streams[s], i).1;
                    let first: Vec<String> = ids.iter().map(|c| rec(*c)).collect();
                    let mut diffs = vec![];
                    for (n, c) in ids.iter().enumerate().rev() {
                        let again = rec(*c);
                        if again != first[n] {
                            diffs.push((format!("{}:{}", streams[c.0], c.1), first[n].clone(), again));
                            if diffs.len() >= 5 {
                                break;
                            }
                        }
                    }
                    let errs = first.iter().filter(|r| r.starts_with("ParseErr") || r.contains("CompileErr(")).count();
                    (first.len(), errs, diffs)
                })
                .unwrap()
                .join()
        });
        match res {
            Ok((n, errs, diffs)) => {
                rep.evaluations += 2 * n as u64;
                rep.add("order_records_compared", n as u64);
                rep.add("order_records_that_are_errors", errs as u64);
                for (case, a, b) in diffs {
                    let input = case.rsplit_once(':').map(|(s, i)| crate::monitors::c17::record(seed, s, i.parse().unwrap_or(0)).0).unwrap_or_default();
                    rep.violation(
                        "C15:history-dependent",
                        &format!("the result for input {:?} depends on the calls made before it on the same thread: first pass {} ; after the rest of the corpus {}", input.chars().take(200).collect::<String>(), a.chars().take(200).collect::<String>(), b.chars().take(200).collect::<String>()),
                        &format!("order:{}", 0),
                        J::obj(vec![("corpus_case", J::s(&case)), ("input", J::s(&input)), ("first_pass", J::s(&a)), ("second_pass", J::s(&b))]),
                    );
                }
            }
            Err(_) => rep.inconclusive.push("C15 order stream: the dedicated thread panicked (harness)".into()),
        }
    }
    if ctx.only.is_none() {
        rep.floor("equal tree pairs compiled and compared", rep.get("equal_pairs_with_identical_results") > 50 && rep.get("pairs_not_equal") > 50);
        rep.floor("call-history stream compared records", rep.get("order_records_compared") > 500);
        rep.floor("late-render windows observed", rep.get("late_render_windows_checked") >= 3);
        rep.floor("clock windows observed", rep.get("clock_windows_checked") > 50);
        rep.floor("repeated compilations compared", rep.get("compilations_compared") > 500);
    }
}

/// One line per case for the cross-process leg: digest of (tree, program, table) or of the error.
pub fn digest(seed: u64, n: u64) -> Vec<String> {
    let mut out = vec![];
    for i in 0..n {
        let mut r = Rng::for_case(seed, "xproc", i);
        let e = gen_resource_heavy(&mut r, false, false);
        let text = render_default(&e).unwrap_or_default();
        let rec = match parse_g(&text) {
            Ok(Ok((o, tree))) => match compile_g(&tree, &o, "/dev/x") {
                Ok((Ok(c), t0, t1)) => format!("{:?}|{:?}|{}|{}", o, tree, normalise_clock(&c.text, t0, t1), io_map_sorted(&c.io_map)),
                Ok((Err(m), _, _)) => format!("{:?}|CompileErr({})", tree, m),
                Err(p) => format!("Panic({})", p.0),
            },
            Ok(Err(m)) => format!("ParseErr({})", m),
            Err(p) => format!("Panic({})", p.0),
        };
        out.push(format!("xproc:{} {:016x} {}", i, hash_str(&rec), count_res(&e)));
    }
    out
}
