#!/usr/bin/env python3
"""Markdown table of seeded changes (id, property, summary, caught by) from seeded/<id>/{meta,results}.json.

  tools/roundtable.py PREFIX [--regress]     # e.g. R8_ ; --regress takes 'caught by' from seeded/regress.json
"""
import json, os, sys
V = os.path.dirname(os.path.dirname(os.path.abspath(__file__)))
pre = sys.argv[1]
reg = json.load(open(os.path.join(V, "seeded", "regress.json"))) if "--regress" in sys.argv else None
print("| change | property | what it does | caught by |")
print("|--------|----------|--------------|-----------|")
for d in sorted(os.listdir(os.path.join(V, "seeded"))):
    if not d.startswith(pre) or not os.path.isdir(os.path.join(V, "seeded", d)):
        continue
    m = json.load(open(os.path.join(V, "seeded", d, "meta.json")))
    if reg is not None:
        row = reg.get(d, {})
    else:
        try:
            row = json.load(open(os.path.join(V, "seeded", d, "results.json"))).get("checks_quick", {})
        except Exception:
            row = {}
    caught = [p for p in sorted(row) if isinstance(row[p], dict) and row[p].get("exit") == 1]
    s = " ".join(m.get("summary", "").split())
    print("| %s | %s | %s | %s |" % (d, m.get("property", "?"), (s[:150] + "...") if len(s) > 150 else s, ", ".join(caught) or "-"))
