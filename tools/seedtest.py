#!/usr/bin/env python3
"""Confirm and run a seeded breaking change.

  tools/seedtest.py confirm <dir>          # in a scratch worktree: 45 tests pass with the patch, demo fails with / passes without
  tools/seedtest.py run <dir> [ID ...]     # apply to /repo, run the quick checks (default: the targeted property), undo
  tools/seedtest.py runall <dir>           # same with all 20 quick checks

<dir> holds patch.diff, demo.rs, meta.json. Results are appended to <dir>/results.json.
"""
import json
import os
import shutil
import subprocess
import sys
import time

VERIF = os.path.dirname(os.path.dirname(os.path.abspath(__file__)))
ALL = ["C%02d" % i for i in range(1, 21)]


def sh(cmd, cwd=None, timeout=3600, env=None):
    p = subprocess.run(cmd, cwd=cwd, shell=isinstance(cmd, str), stdout=subprocess.PIPE, stderr=subprocess.STDOUT, text=True, timeout=timeout, env=env, errors="replace")
    return p.returncode, p.stdout


def confirm(d):
    # one scratch worktree reused across confirmations (incremental builds); remove it with
    # `tools/seedtest.py cleanup` when done
    wt = "/tmp/wt_confirm"
    if not os.path.isdir(wt):
        rc, out = sh("git -C /repo worktree add -q --detach %s HEAD" % wt)
        if rc != 0:
            print(out)
            return False
    sh("git checkout -q --detach %s && git checkout -- . && rm -f tests/seed_demo.rs" % sh("git -C /repo rev-parse HEAD")[1].strip(), cwd=wt)
    env = dict(os.environ, CARGO_NET_OFFLINE="true", CARGO_TARGET_DIR=os.path.join(wt, "target"))
    res = {}
    try:
        rc, out = sh(["git", "apply", os.path.join(d, "patch.diff")], cwd=wt)
        res["applies"] = rc == 0
        if rc != 0:
            print("patch does not apply:", out)
            return False
        rc, out = sh("cargo test --offline --lib 2>&1 | tail -5", cwd=wt, env=env)
        res["suite_with_patch"] = "45 passed" in out and "0 failed" in out
        os.makedirs(os.path.join(wt, "tests"), exist_ok=True)
        shutil.copy(os.path.join(d, "demo.rs"), os.path.join(wt, "tests", "seed_demo.rs"))
        profile = ""
        meta = json.load(open(os.path.join(d, "meta.json")))
        if meta.get("demo_profile") == "release":
            profile = "--release"
        rc1, out1 = sh("cargo test --offline %s --test seed_demo" % profile, cwd=wt, env=env)
        res["demo_fails_with_patch"] = rc1 != 0 and ("FAILED" in out1 or "panicked" in out1 or "failed" in out1)
        sh(["git", "apply", "-R", os.path.join(d, "patch.diff")], cwd=wt)
        rc2, out2 = sh("cargo test --offline %s --test seed_demo" % profile, cwd=wt, env=env)
        res["demo_passes_without_patch"] = rc2 == 0
        if not (res["suite_with_patch"] and res["demo_fails_with_patch"] and res["demo_passes_without_patch"]):
            print("with patch:\n", out1[-800:], "\nwithout:\n", out2[-800:])
    finally:
        sh("git checkout -- . && rm -f tests/seed_demo.rs", cwd=wt)
    ok = all(res.values())
    print(json.dumps(res))
    save(d, {"confirm": res, "confirmed": ok})
    return ok


def save(d, upd):
    path = os.path.join(d, "results.json")
    cur = {}
    if os.path.exists(path):
        cur = json.load(open(path))
    cur.update(upd)
    json.dump(cur, open(path, "w"), indent=1)


def run(d, ids, tier="quick"):
    rc, out = sh("git -C /repo status --porcelain")
    if out.strip():
        print("refusing: /repo has uncommitted changes:\n" + out)
        sys.exit(2)
    rc, out = sh(["git", "-C", "/repo", "apply", os.path.join(d, "patch.diff")])
    if rc != 0:
        print("patch does not apply to /repo:", out)
        sys.exit(2)
    results = {}
    try:
        for pid in ids:
            t = time.time()
            rc, out = sh([os.path.join(VERIF, "check"), pid, "--tier", tier], cwd=VERIF, env=dict(os.environ, VERIF_NO_EVIDENCE="1"))
            lines = [l for l in out.split("\n") if l.startswith("VIOLATION") or l.strip().startswith("signature=") or l.startswith("INCONCLUSIVE") or l.startswith("BROKEN")]
            results[pid] = {"exit": rc, "seconds": round(time.time() - t, 1), "lines": [l[:300] for l in lines[:8]]}
            print("%s exit=%d %.1fs %s" % (pid, rc, time.time() - t, (lines[0][:200] if lines else "")))
    finally:
        sh("git -C /repo checkout -- .")
        sh("git -C /repo clean -fdq -- src tests examples")
    save(d, {"checks_%s" % tier: results})
    return results


if __name__ == "__main__":
    if len(sys.argv) == 2 and sys.argv[1] == "cleanup":
        sh("git -C /repo worktree remove --force /tmp/wt_confirm")
        shutil.rmtree("/tmp/wt_confirm", ignore_errors=True)
        sys.exit(0)
    if len(sys.argv) < 3:
        print(__doc__)
        sys.exit(2)
    cmd, d = sys.argv[1], os.path.abspath(sys.argv[2])
    if cmd == "confirm":
        sys.exit(0 if confirm(d) else 1)
    meta = json.load(open(os.path.join(d, "meta.json")))
    if cmd == "run":
        ids = sys.argv[3:] or [meta["property"]]
        run(d, ids)
    elif cmd == "runall":
        run(d, ALL)
    elif cmd == "thorough":
        run(d, sys.argv[3:] or [meta["property"]], tier="thorough")
