#!/usr/bin/env python3
"""Which lines of /repo/src do the monitors' workloads actually execute?

  tools/coverage.py [--tier quick] [ID ...]        # default: all twenty, quick tier

Builds the harness with -Cinstrument-coverage (nightly, own target dir /verif/target/cov), runs
`fpv run <ID>` for every property, merges the profiles and prints, per source file of the library,
the executed / executable line counts and the list of never-executed lines (test modules excluded).
This is a *diagnostic for the workloads* (a line nobody executes is a line no monitor can judge);
it decides nothing and writes only /verif/logs/coverage.json.
"""
import json
import os
import re
import subprocess
import sys

VERIF = os.path.dirname(os.path.dirname(os.path.abspath(__file__)))
TARGET = os.path.join(VERIF, "target", "cov")
LOGS = os.path.join(VERIF, "logs")
BIN = "/root/.rustup/toolchains/nightly-x86_64-unknown-linux-gnu/lib/rustlib/x86_64-unknown-linux-gnu/bin"


def main():
    args = sys.argv[1:]
    tier = "quick"
    if args[:1] == ["--tier"]:
        tier = args[1]
        args = args[2:]
    ids = args or ["C%02d" % i for i in range(1, 21)]
    os.makedirs(LOGS, exist_ok=True)
    env = dict(os.environ, CARGO_TARGET_DIR=TARGET, CARGO_NET_OFFLINE="true", RUSTFLAGS="-Cinstrument-coverage -Awarnings",
               LLVM_PROFILE_FILE=os.path.join(TARGET, "build-%p.profraw"))  # instrumented build scripts write here, not into their cwd
    p = subprocess.run(["cargo", "+nightly", "build", "--offline", "--quiet"], cwd=os.path.join(VERIF, "harness"), env=env)
    if p.returncode != 0:
        print("coverage build failed")
        sys.exit(2)
    binary = os.path.join(TARGET, "debug", "fpv")
    prof = os.path.join(TARGET, "prof")
    subprocess.run(["rm", "-rf", prof])
    os.makedirs(prof)
    for pid in ids:
        e = dict(os.environ, LLVM_PROFILE_FILE=os.path.join(prof, pid + "-%p.profraw"))
        out = os.path.join(LOGS, "cov.%s.json" % pid)
        sub = "digest" if pid == "C17" else "run"  # C17's workload is the two-profile digest
        r = subprocess.run([binary, sub, pid, "--tier", tier, "--seed", os.environ.get("VERIF_SEED", "1"), "--out", out], cwd=VERIF, env=e, stdout=subprocess.PIPE, stderr=subprocess.STDOUT, text=True)
        print(pid, "exit", r.returncode, flush=True)
    merged = os.path.join(TARGET, "all.profdata")
    raws = [os.path.join(prof, f) for f in os.listdir(prof)]
    subprocess.run([BIN + "/llvm-profdata", "merge", "-sparse", "-o", merged] + raws, check=True)
    exp = subprocess.run([BIN + "/llvm-cov", "export", "-format=lcov", "-instr-profile=" + merged, binary], stdout=subprocess.PIPE, text=True, check=True).stdout
    files = {}
    cur = None
    for line in exp.split("\n"):
        if line.startswith("SF:"):
            cur = line[3:]
            files.setdefault(cur, {})
        elif line.startswith("DA:") and cur:
            n, c = line[3:].split(",")[:2]
            files[cur][int(n)] = max(files[cur].get(int(n), 0), int(c))
    report = {}
    for path in sorted(files):
        if not path.startswith("/repo/src"):
            continue
        src = open(path).read().split("\n")
        # skip #[cfg(test)] modules: everything from the attribute to the end of the file (the
        # library keeps its unit tests at the bottom of each file)
        cut = len(src) + 1
        for i, l in enumerate(src, 1):
            if re.match(r"\s*#\[cfg\(test\)\]", l):
                cut = i
                break
        lines = {n: c for n, c in files[path].items() if n < cut}
        miss = sorted(n for n, c in lines.items() if c == 0)
        report[path] = {"executable": len(lines), "executed": len(lines) - len(miss), "missed": miss}
        print("%-45s %4d / %4d  missed: %s" % (path, len(lines) - len(miss), len(lines), _ranges(miss)))
    json.dump({"tier": tier, "ids": ids, "files": report}, open(os.path.join(LOGS, "coverage.json"), "w"), indent=1)


def _ranges(ns):
    out, i = [], 0
    while i < len(ns):
        j = i
        while j + 1 < len(ns) and ns[j + 1] == ns[j] + 1:
            j += 1
        out.append(str(ns[i]) if i == j else "%d-%d" % (ns[i], ns[j]))
        i = j + 1
    return " ".join(out)


if __name__ == "__main__":
    main()
