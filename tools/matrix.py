#!/usr/bin/env python3
"""Catch matrix: every seeded change x every quick check, in an isolated copy of /verif and /repo
(so that editing /verif meanwhile does not disturb it). Writes /verif/seeded/matrix.json.

  tools/matrix.py [mutant ...]
"""
import json, os, shutil, subprocess, sys, time

VERIF = os.path.dirname(os.path.dirname(os.path.abspath(__file__)))
ROOT = os.environ.get("FPV_MATRIX_ROOT", "/tmp/fpv_matrix")
ALL = ["C%02d" % i for i in range(1, 21)]


def sh(cmd, cwd=None, env=None, timeout=7200):
    p = subprocess.run(cmd, cwd=cwd, shell=True, stdout=subprocess.PIPE, stderr=subprocess.STDOUT, text=True, env=env, timeout=timeout, errors="replace")
    return p.returncode, p.stdout


def main():
    targeted = "--targeted" in sys.argv
    if targeted:
        sys.argv.remove("--targeted")
    only_checks = None  # --checks C05,C18 : restrict the checks run on benign changes / untargeted rows
    if "--checks" in sys.argv:
        k = sys.argv.index("--checks")
        only_checks = sys.argv[k + 1].split(",")
        del sys.argv[k:k + 2]
    scale = ""
    if "--scale" in sys.argv:
        k = sys.argv.index("--scale")
        scale = " --scale " + sys.argv[k + 1]
        del sys.argv[k:k + 2]
    out_name = None
    if "--out" in sys.argv:
        k = sys.argv.index("--out")
        out_name = sys.argv[k + 1]
        del sys.argv[k:k + 2]
    muts = sys.argv[1:] or sorted(d for d in os.listdir(os.path.join(VERIF, "seeded")) if os.path.isfile(os.path.join(VERIF, "seeded", d, "patch.diff")))
    shutil.rmtree(ROOT, ignore_errors=True)
    os.makedirs(ROOT)
    sh("rsync -a --exclude target --exclude logs --exclude replays --exclude .git %s/ %s/verif/" % (VERIF, ROOT))
    sh("rsync -a --exclude target /repo/ %s/repo/" % ROOT)
    sh("sed -i 's#path = \"/repo\"#path = \"%s/repo\"#' %s/verif/harness/Cargo.toml" % (ROOT, ROOT))
    repo = ROOT + "/repo"
    env = dict(os.environ, VERIF_NO_EVIDENCE="1")
    out_path = os.path.join(VERIF, "seeded", out_name or ("regress.json" if targeted else "matrix.json"))
    matrix = {}
    if os.path.exists(out_path) and sys.argv[1:]:
        matrix = json.load(open(out_path))
    try:
        for m in muts:
            rc, o = sh("git -C %s checkout -- . && git -C %s apply %s/verif/seeded/%s/patch.diff" % (repo, repo, ROOT, m))
            if rc != 0:
                matrix[m] = {"error": o[-300:]}
                continue
            row = {}
            ids = only_checks or ALL
            if targeted and not m.startswith("benign"):
                try:
                    prop = json.load(open("%s/verif/seeded/%s/meta.json" % (ROOT, m))).get("property", "")
                except Exception:
                    prop = ""
                ids = [prop] if prop in ALL else ALL
            for pid in ids:
                t = time.time()
                rc, o = sh("./check %s --tier quick%s" % (pid, scale), cwd=ROOT + "/verif", env=env)
                sigs = [l.strip().split(" ")[0].replace("signature=", "") for l in o.split("\n") if l.strip().startswith("signature=")]
                row[pid] = {"exit": rc, "s": round(time.time() - t, 1), "signatures": sigs[:4]}
            matrix[m] = row
            print(m, "caught by", [p for p in row if row[p]["exit"] == 1], "other", {p: row[p]["exit"] for p in row if row[p]["exit"] not in (0, 1)}, flush=True)
            json.dump(matrix, open(out_path, "w"), indent=1)
    finally:
        shutil.rmtree(ROOT, ignore_errors=True)


if __name__ == "__main__":
    main()
