/* LD_PRELOAD shim for the ambient-input monitor (C15 leg "ambient"): records the name of every
 * environment variable the process looks up through getenv()/secure_getenv() into the file named by
 * ENVSPY_LOG (one name per line, appended, duplicates left to the reader). It changes no result.
 * Built by tools/legs.py with `cc -shared -fPIC`; Rust's std::env::var{,_os} reaches libc getenv. */
#define _GNU_SOURCE
#include <dlfcn.h>
#include <fcntl.h>
#include <string.h>
#include <unistd.h>

static char *(*real_getenv)(const char *);
static char *(*real_secure_getenv)(const char *);
static int in_spy;

static void note(const char *name) {
    if (in_spy || !name) return;
    in_spy = 1;
    if (!real_getenv) real_getenv = dlsym(RTLD_NEXT, "getenv");
    const char *path = real_getenv ? real_getenv("ENVSPY_LOG") : 0;
    if (path && strcmp(name, "ENVSPY_LOG") != 0) {
        int fd = open(path, O_WRONLY | O_APPEND | O_CREAT, 0644);
        if (fd >= 0) {
            char buf[512];
            size_t n = strlen(name);
            if (n > sizeof buf - 2) n = sizeof buf - 2;
            memcpy(buf, name, n);
            buf[n] = '\n';
            ssize_t w = write(fd, buf, n + 1);
            (void)w;
            close(fd);
        }
    }
    in_spy = 0;
}

char *getenv(const char *name) {
    if (!real_getenv) real_getenv = dlsym(RTLD_NEXT, "getenv");
    note(name);
    return real_getenv ? real_getenv(name) : 0;
}

char *secure_getenv(const char *name) {
    if (!real_secure_getenv) real_secure_getenv = dlsym(RTLD_NEXT, "secure_getenv");
    note(name);
    return real_secure_getenv ? real_secure_getenv(name) : 0;
}
