#!/bin/sh
# Warm every build the checks use (release, debug, ASan, Miri) and run the harness's own unit tests.
# Offline; from files on disk only. The checks rebuild against /repo's working tree themselves.
set -e
cd /verif/harness
export CARGO_TARGET_DIR=/verif/target CARGO_NET_OFFLINE=true RUSTFLAGS=-Awarnings
cargo build --offline --release
cargo build --offline
cargo test --offline --quiet
CARGO_TARGET_DIR=/verif/target/asan RUSTFLAGS="-Zsanitizer=address -Cforce-frame-pointers=yes -Awarnings" cargo +nightly build --offline --quiet --release --target x86_64-unknown-linux-gnu || echo "note: ASan build unavailable (the C03 check reports that leg as inconclusive)"
MIRIFLAGS=-Zmiri-disable-isolation cargo +nightly miri run --offline --quiet -- streams C03 >/dev/null || echo "note: Miri unavailable (the C03 check reports that leg as inconclusive)"
# LD_PRELOAD getenv shim of the ambient-input leg (legs.py rebuilds it when missing or stale)
mkdir -p /verif/target && cc -shared -fPIC -O1 -o /verif/target/envspy.so /verif/tools/envspy.c -ldl || echo "note: cc unavailable (the ambient-input leg then reports the shim as unavailable and is skipped)"
