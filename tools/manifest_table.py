MODEL_NOTE = "Trusted base: the model Guile/LiPE runtime and reference evaluator in /verif/harness (DESIGN.md 2.1, Appendix B/C); no real Guile is available in the sandbox."
HOOK_COMMITS = []
CHECKS = [
    {"property_id": "C02", "level": "translation_validation",
     "text": "Each compiled program is executed (model runtime) on file records directed at the expression's constants and compared with an independent reference evaluator: truth value, ordered outputs and stop request. Held on the programs x records observed; not a proof over all trees.",
     "note": MODEL_NOTE, "technique": "runtime monitoring: emitted policy executed in a model runtime vs reference evaluator on directed records"},
]
_PENDING = ["C01","C03","C04","C05","C06","C07","C08","C09","C10","C11","C12","C13","C14","C15","C16","C17","C18","C19","C20"]
NOT_APPLICABLE = [{"property_id": p, "reason": "monitor not built yet (work in progress; the technique applies)"} for p in _PENDING]
