#!/usr/bin/env python3
"""Regenerates /verif/MANIFEST.json from the table below (kept in one place so it stays valid)."""
import json, os, sys
sys.path.insert(0, os.path.dirname(os.path.abspath(__file__)))
from manifest_table import CHECKS, NOT_APPLICABLE, HOOK_COMMITS

VERIF = os.path.dirname(os.path.dirname(os.path.abspath(__file__)))
m = {
    "version": 1,
    "setup_cmd": "sh /verif/tools/setup.sh",
    "hooks": {
        "guard": "lipe_find_parser_verif",
        "enable": "none needed: every monitor observes at the public API boundary (parse / compile / scheme / io_map); no source hooks were added to /repo",
        "baseline_off_cmd": "cd /repo && cargo test --workspace --no-fail-fast --offline",
        "source_commits": HOOK_COMMITS,
        "add_only": True,
    },
    "engines": [
        {"name": "fpv", "path": "/verif/harness", "serves_properties": [c["property_id"] for c in CHECKS], "kind_free_text": "Rust harness: workload generators, spec-side reference models, model Guile/LiPE runtime executing the emitted policy, per-property monitors"},
        {"name": "check", "path": "/verif/check", "serves_properties": [c["property_id"] for c in CHECKS], "kind_free_text": "python driver: rebuilds against /repo, runs monitors (both profiles, Miri, valgrind, fresh processes where needed), applies known_findings.json, writes evidence"},
    ],
    "checks": [],
    "notes": "Technique family: runtime monitoring and sanitizers. See DESIGN.md. Exit codes of ./check: 0 held, 1 violation, 2 machinery broken, 3 inconclusive.",
    "not_applicable": NOT_APPLICABLE,
}
for c in CHECKS:
    pid = c["property_id"]
    m["checks"].append({
        "property_id": pid,
        "quick_cmd": "./check %s --tier quick" % pid,
        "thorough_cmd": "./check %s --tier thorough" % pid,
        "evidence_file": "/verif/evidence/%s.json" % pid,
        "replay_cmd_template": "./check %s --replay {path}" % pid,
        "engine": "fpv",
        "level_claimed": {"category": c["level"], "text": c["text"], "design_ref": "DESIGN.md section 4, %s" % pid},
        "level_note": c["note"],
        "technique": c["technique"],
    })
json.dump(m, open(os.path.join(VERIF, "MANIFEST.json"), "w"), indent=1)
print("wrote MANIFEST.json with %d checks, %d not_applicable" % (len(CHECKS), len(NOT_APPLICABLE)))
