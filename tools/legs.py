"""Per-property run specifications for /verif/check: build profiles, extra legs, evidence texts."""

SPECS = {
    "C02": {
        "profiles": ["release"],
        "uses_model": True,
        "rule": "cases: (a) every supported test/action kind alone with boundary-rich arguments, (b) every supported format directive alone/in pairs, (c) random operator trees of 1-8 leaves built through the public constructors, (d) the same through parse(); each compiled, executed in the model runtime on records directed at its constants (value-1/value/value+1 per unit, every type, every permission bit flip, matching / case-variant / near-miss names) plus random records, and compared with the reference evaluator (truth, ordered outputs per destination, stop request). distinct_nontrivial = distinct trees whose record set produced both a true and a false outcome.",
    },
}
