"""Per-property run specifications for /verif/check: build profiles, extra legs, evidence texts."""
import json
import os
import subprocess
import time

# ---------------------------------------------------------------------------------------------
# helpers


def _run(cmd, cwd, env=None, timeout=None):
    try:
        p = subprocess.run(cmd, cwd=cwd, env=env, stdout=subprocess.PIPE, stderr=subprocess.STDOUT, text=True, timeout=timeout, errors="replace")
        return p.returncode, p.stdout
    except subprocess.TimeoutExpired as e:
        out = e.stdout or ""
        if isinstance(out, bytes):
            out = out.decode("utf-8", "replace")
        return "timeout", out


def _abnormal(rc):
    # 101 (a panic that escaped, i.e. a bug of the harness itself) is deliberately not in this list
    return rc == "timeout" or (isinstance(rc, int) and (rc < 0 or rc in (97, 134, 139)))


def _hang_case(txt):
    for line in (txt or "").split("\n"):
        if line.startswith("HANG "):
            return line.split()[1]
    return None


# ---------------------------------------------------------------------------------------------
# C03: both profiles under a supervisor (abort / hang bisection), Miri, valgrind


def _c03_run_range(binary, tier, seed, scale, stream, a, b, out, timeout, verif):
    cmd = [binary, "run", "C03", "--tier", tier, "--seed", str(seed), "--range", "%s:%d:%d" % (stream, a, b), "--out", out]
    if scale:
        cmd += ["--scale", scale]
    if os.path.exists(out):
        os.remove(out)
    rc, txt = _run(cmd, verif, timeout=timeout)
    return rc, txt


def _c03_bisect(binary, tier, seed, scale, stream, n, logs, verif, profile):
    """Find one input in [0, n) of the stream whose processing kills or hangs the worker process."""
    lo, hi = 0, n
    out = os.path.join(logs, "C03.bisect.json")
    while hi - lo > 1:
        mid = (lo + hi) // 2
        rc, _ = _c03_run_range(binary, tier, seed, scale, stream, lo, mid, out, 120, verif)
        if _abnormal(rc):
            hi = mid
        else:
            lo = mid
    # isolated re-run rule: three times, 30 s each
    kinds = []
    for _ in range(3):
        rc, txt = _c03_run_range(binary, tier, seed, scale, stream, lo, lo + 1, out, 30, verif)
        kinds.append(rc)
    if all(_abnormal(k) for k in kinds):
        kind = "hang" if all(k == "timeout" for k in kinds) else "abort"
        return {"sig": "C03:%s:%s" % (kind, stream), "what": "worker process %s on input %s:%d in the %s build (exit %s): %s" % ("did not terminate within 3 x 30 s" if kind == "hang" else "died", stream, lo, profile, kinds, txt[-300:].replace("\n", " ")),
                "case": "%s:%d" % (stream, lo), "count": 1, "detail": {"profile": profile}}
    return None


def leg_c03_profiles(pid, tier, seed, h):
    results, errs = [], []
    for profile in ("release", "debug"):
        binary, _ = h["build"](profile)
        out = os.path.join(h["logs"], "C03.%s.%s.json" % (profile, tier))
        cmd = [binary, "run", "C03", "--tier", tier, "--seed", str(seed), "--out", out]
        if h["scale"]:
            cmd += ["--scale", h["scale"]]
        if os.path.exists(out):
            os.remove(out)
        rc, txt = _run(cmd, h["verif"], timeout=3600)
        if rc == 0 and os.path.exists(out):
            res = json.load(open(out))
            res["leg"] = "profile"
            res["same_space"] = profile == "debug"  # same inputs as the release run
            results.append(res)
            continue
        hang = _hang_case(txt) if rc == 97 else None
        if hang:
            # the in-process watchdog named the input: isolated re-run rule (3 x 30 s)
            stream, idx = hang.rsplit(":", 1)
            kinds = []
            for _ in range(3):
                rc2, txt2 = _c03_run_range(binary, tier, seed, h["scale"], stream, int(idx), int(idx) + 1, out, 60, h["verif"])
                kinds.append(rc2)
            if all(k in (97, "timeout") for k in kinds):
                h.setdefault("state", {})["abnormal"] = True
                results.append({"property_id": "C03", "profile": profile, "leg": "supervisor", "evaluations": 0, "distinct_nontrivial": 0, "counters": {}, "floors": [], "samples": [],
                                "violations": [{"sig": "C03:hang:%s" % stream, "what": "input %s does not terminate in the %s build: one case exceeded 30 s (> 10^6 x the normal cost) in the corpus run and in 3 isolated re-runs" % (hang, profile), "case": hang, "count": 1, "detail": {"profile": profile}}]})
            else:
                errs.append("C03 %s: case %s exceeded 30 s once but not in 3 isolated re-runs (%s): machine load, not a verdict" % (profile, hang, kinds))
            continue
        if _abnormal(rc):
            # abort / stack overflow / hang: find the input
            rc2, streams = _run([binary, "streams", "C03", "--tier", tier] + (["--scale", h["scale"]] if h["scale"] else []), h["verif"])
            found = None
            for line in streams.split("\n"):
                parts = line.split()
                if len(parts) != 2 or not parts[1].isdigit():
                    continue
                s, n = parts[0], int(parts[1])
                rc3, _ = _c03_run_range(binary, tier, seed, h["scale"], s, 0, n, out, 1800, h["verif"])
                if _abnormal(rc3):
                    found = _c03_bisect(binary, tier, seed, h["scale"], s, n, h["logs"], h["verif"], profile)
                    if found:
                        break
            if found:
                h.setdefault("state", {})["abnormal"] = True
                results.append({"property_id": "C03", "profile": profile, "leg": "supervisor", "evaluations": 0, "distinct_nontrivial": 0, "violations": [found], "counters": {}, "floors": [], "samples": []})
            else:
                errs.append("C03 %s worker exited abnormally (%s) but no single input reproduces it 3 times: %s" % (profile, rc, txt[-300:]))
        else:
            errs.append("C03 %s run failed: exit %s %s" % (profile, rc, txt[-500:]))
    return results, errs


def leg_c03_miri(pid, tier, seed, h):
    """Miri interprets the multi-byte-heavy subset (winnow's unsafe slicing on char boundaries)."""
    if h.get("state", {}).get("abnormal"):
        return [], []
    shards = 16
    per = 8 if tier == "quick" else 120
    env = h["env"]()
    env["MIRIFLAGS"] = "-Zmiri-disable-isolation"
    # build once (serialises on the cargo lock otherwise), then run the shards in parallel
    rc, txt = _run(["cargo", "+nightly", "miri", "run", "--offline", "--quiet", "--", "streams", "C03"], h["harness"], env=env, timeout=1800)
    if rc != 0:
        return [], ["Miri leg could not be built/run: exit %s %s" % (rc, txt[-400:])]
    procs = []
    for k in range(shards):
        out = os.path.join(h["logs"], "C03.miri.%d.json" % k)
        if os.path.exists(out):
            os.remove(out)
        cmd = ["cargo", "+nightly", "miri", "run", "--offline", "--quiet", "--", "run", "C03", "--seed", str(seed), "--threads", "1", "--range", "multibyte:%d:%d" % (k * per, (k + 1) * per), "--out", out]
        procs.append((k, out, subprocess.Popen(cmd, cwd=h["harness"], env=env, stdout=subprocess.PIPE, stderr=subprocess.STDOUT, text=True, errors="replace")))
    results, errs = [], []
    ops = 0
    viol = []
    for k, out, p in procs:
        try:
            txt, _ = p.communicate(timeout=1500)
        except subprocess.TimeoutExpired:
            p.kill()
            subprocess.run("pkill -f 'range multibyte:%d:%d'" % (k * per, (k + 1) * per), shell=True)
            errs.append("Miri shard %d exceeded the watchdog" % k)
            continue
        if p.returncode == 0 and os.path.exists(out):
            r = json.load(open(out))
            ops += r.get("evaluations", 0)
            for v in r.get("violations", []):
                v["sig"] = v["sig"]  # panics found under Miri are the same panics
                viol.append(v)
        elif "error: unsupported operation" in txt and "Undefined Behavior" not in txt:
            errs.append("Miri shard %d met an operation Miri does not support (a limitation of Miri, not a verdict): %s" % (k, " ".join(l for l in txt.split("\n") if "unsupported operation" in l)[:300]))
        elif "Undefined Behavior" in txt or "data race" in txt.lower():
            first = [l for l in txt.split("\n") if "error" in l][:1]
            viol.append({"sig": "C03:miri-ub", "what": "Miri reported: %s (shard %d, inputs multibyte:%d..%d)" % (" ".join(first)[:300], k, k * per, (k + 1) * per), "case": "multibyte:%d" % (k * per), "count": 1, "detail": {"log": txt[-1500:]}})
        else:
            errs.append("Miri shard %d failed without a UB report: exit %s %s" % (k, p.returncode, txt[-300:]))
    results.append({"property_id": "C03", "profile": "miri", "leg": "miri", "evaluations": ops, "distinct_nontrivial": 0, "violations": viol, "counters": {"miri_ops_interpreted": ops, "miri_shards": shards}, "floors": [{"name": "Miri interpreted inputs", "ok": ops > 0}], "samples": []})
    return results, errs


def leg_c03_asan(pid, tier, seed, h):
    """The corpus again under AddressSanitizer (nightly rustc -Zsanitizer=address; std not rebuilt)."""
    if h.get("state", {}).get("abnormal"):
        return [], []  # the worker already dies / hangs on a known input: reported by the supervisor
    env = h["env"]()
    env["CARGO_TARGET_DIR"] = os.path.join(h["target"], "asan")
    env["RUSTFLAGS"] = "-Zsanitizer=address -Cforce-frame-pointers=yes -Awarnings"
    rc, txt = _run(["cargo", "+nightly", "build", "--offline", "--quiet", "--release", "--target", "x86_64-unknown-linux-gnu"], h["harness"], env=env, timeout=1800)
    binary = os.path.join(h["target"], "asan", "x86_64-unknown-linux-gnu", "release", "fpv")
    if rc != 0 or not os.path.exists(binary):
        return [], ["ASan leg could not be built: exit %s %s" % (rc, txt[-400:])]
    out = os.path.join(h["logs"], "C03.asan.json")
    if os.path.exists(out):
        os.remove(out)
    scale = h["scale"] or ("0.5" if tier == "quick" else "1.0")
    renv = dict(os.environ, ASAN_OPTIONS="halt_on_error=1:abort_on_error=0:detect_leaks=0:symbolize=1")
    rc, txt = _run([binary, "run", "C03", "--tier", tier, "--seed", str(seed), "--scale", scale, "--out", out], h["verif"], env=renv, timeout=3000)
    viol = []
    if "AddressSanitizer" in txt:
        head = [l for l in txt.split("\n") if "ERROR: AddressSanitizer" in l][:1]
        frames = [l.strip() for l in txt.split("\n") if l.strip().startswith("#") and ("winnow" in l or "lipe_find_parser" in l)][:1]
        viol.append({"sig": "C03:asan:%s" % (head[0].split("AddressSanitizer:")[1].split()[0] if head else "report"), "what": "AddressSanitizer report: %s at %s" % (" ".join(head)[:200], " ".join(frames)[:200]), "case": "", "count": 1, "detail": {"log": txt[-3000:]}})
        ops = 0
    elif rc != 0 or not os.path.exists(out):
        return [], ["ASan leg failed without a sanitizer report: exit %s %s" % (rc, txt[-300:])]
    else:
        r = json.load(open(out))
        ops = r.get("evaluations", 0)
        for v in r.get("violations", []):
            viol.append(v)
    return [{"property_id": "C03", "profile": "asan", "leg": "asan", "evaluations": ops, "distinct_nontrivial": 0, "violations": viol, "counters": {"asan_inputs": ops}, "floors": [{"name": "ASan run completed", "ok": ops > 0 or bool(viol)}], "samples": []}], []


def leg_c03_valgrind(pid, tier, seed, h):
    if tier != "thorough" or h.get("state", {}).get("abnormal"):
        return [], []
    binary, _ = h["build"]("release")
    out = os.path.join(h["logs"], "C03.valgrind.json")
    log = os.path.join(h["logs"], "C03.valgrind.log")
    for f in (out, log):
        if os.path.exists(f):
            os.remove(f)
    cmd = ["valgrind", "--tool=memcheck", "--error-exitcode=0", "--log-file=" + log, binary, "run", "C03", "--tier", "quick", "--seed", str(seed), "--scale", "0.06", "--threads", "4", "--out", out]
    rc, txt = _run(cmd, h["verif"], timeout=3000)
    if rc != 0 or not os.path.exists(out):
        return [], ["valgrind leg failed: exit %s %s" % (rc, txt[-300:])]
    r = json.load(open(out))
    nerr = 0
    for line in open(log, errors="replace"):
        if "ERROR SUMMARY:" in line:
            try:
                nerr = int(line.split("ERROR SUMMARY:")[1].split()[0])
            except Exception:
                pass
    viol = []
    if nerr:
        viol.append({"sig": "C03:memcheck", "what": "valgrind memcheck reported %d errors (see %s)" % (nerr, log), "case": "", "count": nerr, "detail": {}})
    return [{"property_id": "C03", "profile": "valgrind", "leg": "valgrind", "evaluations": r.get("evaluations", 0), "distinct_nontrivial": 0, "violations": viol, "counters": {"memcheck_inputs": r.get("evaluations", 0), "memcheck_errors": nerr}, "floors": [], "samples": []}], []


# ---------------------------------------------------------------------------------------------
# C15: fresh processes (fresh hash seeds) must agree


def leg_c15_xproc(pid, tier, seed, h):
    binary, _ = h["build"]("release")
    nproc = 4 if tier == "quick" else 16
    procs = []
    for k in range(nproc):
        out = os.path.join(h["logs"], "C15.digest.%d.txt" % k)
        if os.path.exists(out):
            os.remove(out)
        cmd = [binary, "digest", "C15", "--tier", tier, "--seed", str(seed), "--out", out]
        if h["scale"]:
            cmd += ["--scale", h["scale"]]
        procs.append((out, subprocess.Popen(cmd, cwd=h["verif"], stdout=subprocess.PIPE, stderr=subprocess.STDOUT, text=True)))
    files = []
    for out, p in procs:
        try:
            p.communicate(timeout=1800)
        except subprocess.TimeoutExpired:
            p.kill()
            return [], ["C15 digest process exceeded the watchdog"]
        if p.returncode != 0 or not os.path.exists(out):
            return [], ["C15 digest process failed (exit %s)" % p.returncode]
        files.append(open(out).read().split("\n"))
    base = files[0]
    viol = []
    heavy = 0
    for i, line in enumerate(base):
        if not line:
            continue
        if int(line.split()[2]) >= 3:
            heavy += 1
        for k in range(1, nproc):
            if i >= len(files[k]) or files[k][i] != line:
                viol.append({"sig": "C15:cross-process", "what": "process 0 and process %d disagree on %s (digest of tree, program and table)" % (k, line.split()[0]), "case": line.split()[0], "count": 1, "detail": {"p0": line, "pk": files[k][i] if i < len(files[k]) else None}})
                break
        if len(viol) >= 3:
            break
    n = len([l for l in base if l])
    return [{"property_id": "C15", "profile": "release", "leg": "xproc", "evaluations": n * nproc, "distinct_nontrivial": heavy, "violations": viol,
             "counters": {"xproc_processes": nproc, "xproc_expressions": n}, "floors": [{"name": "cross-process digests compared", "ok": n > 50}],
             "samples": [{"cross_process": "%d expressions digested in %d fresh processes" % (n, nproc), "first_digest_line": base[0] if base else ""}]}], []


# ---------------------------------------------------------------------------------------------
# C17: the same corpus through a debug and a release build


def leg_c17_diff(pid, tier, seed, h):
    outs = {}
    bins = {}
    for profile in ("release", "debug"):
        binary, _ = h["build"](profile)
        bins[profile] = binary
        out = os.path.join(h["logs"], "C17.digest.%s.txt" % profile)
        if os.path.exists(out):
            os.remove(out)
        cmd = [binary, "digest", "C17", "--tier", tier, "--seed", str(seed), "--out", out]
        if h["scale"]:
            cmd += ["--scale", h["scale"]]
        rc, txt = _run(cmd, h["verif"], timeout=3600)
        if rc != 0 or not os.path.exists(out):
            return [], ["C17 digest in profile %s failed: exit %s %s" % (profile, rc, txt[-400:])]
        outs[profile] = open(out).read().split("\n")
    rel, dbg = outs["release"], outs["debug"]
    viol = []
    hist = {"release": {}, "debug": {}}
    reach = 0
    per_sig = {}
    n = 0
    for i, line in enumerate(rel):
        if not line:
            continue
        n += 1
        parts = line.split()
        hist["release"][parts[2]] = hist["release"].get(parts[2], 0) + 1
        if parts[2] in ("K", "C"):
            reach += 1
        dl = dbg[i] if i < len(dbg) else ""
        if dl:
            dk = dl.split()[2]
            hist["debug"][dk] = hist["debug"].get(dk, 0) + 1
        if dl != line:
            case = parts[0]
            recs = {}
            for profile in ("release", "debug"):
                rc, txt = _run([bins[profile], "record", "C17", "--seed", str(seed), "--case", case], h["verif"], timeout=120)
                try:
                    recs[profile] = json.loads(txt.strip().split("\n")[-1])
                except Exception:
                    recs[profile] = {"input": "?", "record": txt[-300:]}
            r1, r2 = recs["release"]["record"], recs["debug"]["record"]
            if r1 == r2:
                continue  # clock tick between the two runs, normalised on re-run
            if r1.startswith("Panic") != r2.startswith("Panic"):
                p = r1 if r1.startswith("Panic") else r2
                sig = "C17:panic-vs-value:%s:%s" % ("release" if r1.startswith("Panic") else "debug", p[6:40].split(":")[0].strip(") "))
            elif r1.startswith("Panic"):
                sig = "C17:different-panics"
            else:
                sig = "C17:value-differs"
            per_sig[sig] = per_sig.get(sig, 0) + 1
            if per_sig[sig] <= 3:
                viol.append({"sig": sig, "what": "input %r: release gives %s ; debug gives %s" % (recs["release"]["input"][:200], r1[:240], r2[:240]), "case": case, "count": 1, "detail": {"input": recs["release"]["input"], "release": r1, "debug": r2}})
            if sum(per_sig.values()) > 400:
                break
    for v in viol:
        v["count"] = per_sig.get(v["sig"], 1)
    samples = []
    for line in rel[:3]:
        if line:
            samples.append({"case": line.split()[0], "digest_release": line.split()[1], "outcome_kind": line.split()[2]})
    return [{"property_id": "C17", "profile": "both", "leg": "diff", "evaluations": n, "distinct_nontrivial": reach, "violations": viol,
             "counters": {"records_compared": n, "outcome_histogram_release": hist["release"], "outcome_histogram_debug": hist["debug"]},
             "floors": [{"name": "records compared", "ok": n > 1000}], "samples": samples}], []


# ---------------------------------------------------------------------------------------------
# ambient-input leg (every in-process monitor): which environment variables does the code consult while the
# monitor's workload runs (LD_PRELOAD shim on getenv), and does any of them change a verdict or a result?

ENV_ALLOW = ("FPV_LOGGER", "RUST_BACKTRACE", "RUST_LIB_BACKTRACE", "RUST_MIN_STACK", "RUST_LOG", "RUST_LOG_STYLE", "ENVSPY_LOG", "LD_PRELOAD", "MALLOC_", "GLIBC_TUNABLES", "LANG", "LC_", "LANGUAGE", "TZ", "NLSPATH", "LOCPATH")
ENV_VALUES = ("7", "0", "1", "true", "x", "")


def _shim(h):
    so = os.path.join(h["target"], "envspy.so")
    src = os.path.join(h["verif"], "tools", "envspy.c")
    if not os.path.exists(so) or os.path.getmtime(so) < os.path.getmtime(src):
        os.makedirs(h["target"], exist_ok=True)
        rc, txt = _run(["cc", "-shared", "-fPIC", "-O1", "-o", so, src, "-ldl"], h["verif"], timeout=120)
        if rc != 0:
            return None
    return so


def _spied_names(log):
    if not os.path.exists(log):
        return set()
    names = set(l.strip() for l in open(log, errors="replace") if l.strip())
    return set(n for n in names if not any(n == a or (a.endswith("_") and n.startswith(a)) for a in ENV_ALLOW))


def leg_ambient_env(pid, tier, seed, h):
    """Run the monitor's quick workload once under the getenv shim; for every variable looked up (beyond the
    Rust runtime's own), run it again with that variable set to several values: a violation that appears only
    then is attributed to the variable (<ID>:ambient-env:<NAME>). C15 also diffs its cross-process digest."""
    so = _shim(h)
    if so is None:
        return [{"property_id": pid, "profile": "release", "leg": "ambient", "evaluations": 0, "distinct_nontrivial": 0, "violations": [], "counters": {"ambient_env_shim_unavailable": 1}, "floors": [], "samples": []}], []
    binary, _ = h["build"]("release")
    log = os.path.join(h["logs"], "%s.envspy.log" % pid)
    out = os.path.join(h["logs"], "%s.ambient.json" % pid)
    if os.path.exists(log):
        os.remove(log)

    def run(extra_env, spy):
        e = dict(os.environ)
        e.update(extra_env)
        if spy:
            e["LD_PRELOAD"] = so
            e["ENVSPY_LOG"] = log
        if os.path.exists(out):
            os.remove(out)
        rc, txt = _run([binary, "run", pid, "--tier", "quick", "--seed", str(seed), "--out", out], h["verif"], env=e, timeout=1800)
        if rc != 0 or not os.path.exists(out):
            return None
        return json.load(open(out))

    def digest(extra_env, spy, cwd=None):
        e = dict(os.environ)
        e.update(extra_env)
        if spy:
            e["LD_PRELOAD"] = so
            e["ENVSPY_LOG"] = log
        dout = os.path.join(h["logs"], "%s.ambient.digest.txt" % pid)
        if os.path.exists(dout):
            os.remove(dout)
        rc, txt = _run([binary, "digest", "C15", "--tier", "quick", "--seed", str(seed), "--out", dout], cwd or h["verif"], env=e, timeout=1800)
        if rc != 0 or not os.path.exists(dout):
            return None
        return open(dout).read().split("\n")

    base = run({}, True)
    if base is None:
        return [], ["%s ambient leg: the spied run of the monitor failed" % pid]
    base_digest = digest({}, True) if pid == "C15" else None
    names = sorted(_spied_names(log))
    base_sigs = set(v["sig"] for v in base.get("violations", []))
    viol = []
    runs = 1
    # logging is ambient state too: with a logger installed at Trace level the arguments of the library's
    # log calls are evaluated; verdicts (and C15's digest) must not change
    res = run({"FPV_LOGGER": "1"}, False)
    runs += 1
    if res is None:
        viol.append({"sig": "%s:ambient-logger" % pid, "what": "with a logger installed (log level Trace) the monitor's run fails outright", "case": "", "count": 1, "detail": {}})
    else:
        new = [v for v in res.get("violations", []) if v["sig"] not in base_sigs]
        if new:
            v = new[0]
            viol.append({"sig": "%s:ambient-logger" % pid, "what": "with a logger installed (log level Trace, so the arguments of the library's log calls are evaluated) the monitor reports, and without it does not: %s: %s" % (v["sig"], v["what"][:300]), "case": v.get("case", ""), "count": len(new), "detail": {"violation": v}})
        elif base_digest is not None:
            d = digest({"FPV_LOGGER": "1"}, False)
            if d is not None and d != base_digest:
                viol.append({"sig": "C15:ambient-logger", "what": "the digest of (tree, program, table) differs when a logger is installed at level Trace: the result depends on whether logging is enabled", "case": "", "count": 1, "detail": {}})
    if base_digest is not None:
        # the working directory is ambient too: same digest from an empty directory and from /
        alt = os.path.join(h["logs"], "empty_cwd")
        os.makedirs(alt, exist_ok=True)
        for d in (alt, "/"):
            dd = digest({}, False, cwd=d)
            if dd is not None and dd != base_digest:
                viol.append({"sig": "C15:ambient-cwd", "what": "the digest of (tree, program, table) differs when the process runs in the working directory %s instead of %s" % (d, h["verif"]), "case": "", "count": 1, "detail": {"cwd": d}})
                break
    without_effect = []
    for name in names[:6]:
        hit = False
        for val in ENV_VALUES:
            res = run({name: val}, False)
            runs += 1
            if res is None:
                viol.append({"sig": "%s:ambient-env:%s" % (pid, name), "what": "with the environment variable %s=%r (which the code looks up while the monitor's workload runs) the monitor's run fails outright" % (name, val), "case": "", "count": 1, "detail": {"variable": name, "value": val}})
                hit = True
                break
            new = [v for v in res.get("violations", []) if v["sig"] not in base_sigs]
            if new:
                v = new[0]
                viol.append({"sig": "%s:ambient-env:%s" % (pid, name), "what": "the code looks up the environment variable %s; with %s=%r the monitor reports (and without it does not): %s: %s" % (name, name, val, v["sig"], v["what"][:300]), "case": v.get("case", ""), "count": len(new), "detail": {"variable": name, "value": val, "violation": v}})
                hit = True
                break
            if base_digest is not None:
                d = digest({name: val}, False)
                if d is not None and d != base_digest:
                    k = next((i for i in range(min(len(d), len(base_digest))) if d[i] != base_digest[i]), 0)
                    viol.append({"sig": "%s:ambient-env:%s" % (pid, name), "what": "the code looks up the environment variable %s; with %s=%r the digest of (tree, program, table) of case %s differs from the run without it: parse/compile are not functions of their input alone" % (name, name, val, base_digest[k].split()[0] if base_digest[k] else "?"), "case": "", "count": 1, "detail": {"variable": name, "value": val}})
                    hit = True
                    break
        if not hit:
            without_effect.append(name)
    return [{"property_id": pid, "profile": "release", "leg": "ambient", "evaluations": base.get("evaluations", 0) * (runs - 1) if False else 0, "distinct_nontrivial": 0, "same_space": True, "violations": viol,
             "counters": {"ambient_env_variables_looked_up": len(names), "ambient_env_variables_without_effect": len(without_effect), "ambient_env_perturbed_runs": runs - 1, "ambient_logger_runs": 1},
             "floors": [], "samples": [{"ambient_environment": "workload re-run under a getenv() shim", "variables_looked_up_by_the_code": names, "perturbed_values": list(ENV_VALUES) if names else []}]}], []


# ---------------------------------------------------------------------------------------------

MODEL = True

# default --scale of the quick tier (random streams only; measured: every check < ~12 s warm)
QUICK_SCALE = {"C01": "32", "C02": "32", "C04": "32", "C05": "100", "C06": "5", "C07": "24", "C08": "64", "C09": "64", "C10": "48", "C11": "20",
               "C12": "32", "C13": "64", "C14": "64", "C16": "12", "C18": "100", "C19": "64", "C20": "12"}

# default --scale of the thorough tier where the base size was small next to the scaled quick tier
# (measured: every thorough check stays under ~5 min on the 16 cores)
THOROUGH_SCALE = {"C02": "3", "C04": "3", "C05": "4", "C08": "3", "C11": "4", "C17": "2", "C18": "4", "C19": "2"}

SPECS = {
    "C01": {
        "legs": [leg_ambient_env],
        "profiles": ["release"],
        "rule": "every sequence of 1..L symbols over {( ) ! , -a -and -o -or -true '-name x' -print} (L=6 quick, 8 thorough; exhaustive), mutated sentences of length 9-40, random well-formed trees rendered with minimal/redundant parentheses; each compared with two agreeing spec-side recognisers and the spec-side tree. Also flat chains of 60-650 symbols, chains of 100-900 small groups, and chains of 1100-6000 operands (half of them one unbroken implicit-AND chain). distinct_nontrivial = sentences using >= 2 operator levels (or implicit AND next to an explicit operator) plus non-sentences that have a non-empty sentence prefix.",
    },
    "C02": {
        "legs": [leg_ambient_env],
        "profiles": ["release"],
        "uses_model": True,
        "rule": "cases: (a) every supported test/action kind alone with boundary-rich arguments, (b) every supported format directive alone/in pairs, (c) random operator trees of 1-8 leaves built through the public constructors, (d) the same through parse(); each compiled, executed in the model runtime on records directed at its constants (value-1/value/value+1 per unit, every type, every permission bit flip, matching / case-variant / near-miss names) plus random records, and compared with the reference evaluator (truth, ordered outputs per destination, stop request). Also trees whose leaves are related (equal-valued copies, neighbouring constants, other comparison form / case rule / terminator), same-field comparison pairs with boundary constants in the same or another unit, coincidence records (all numeric fields equal to one constant, equal timestamps, name = own pattern text, xattr value = name, very long path) and magic numbers. distinct_nontrivial = distinct trees whose record set produced both a true and a false outcome.",
    },
    "C03": {
        "profiles": [],
        "legs": [leg_c03_profiles, leg_c03_asan, leg_c03_miri, leg_c03_valgrind],
        "rule": "inputs: grammar-aware generation (<= 4 KiB, nesting <= 64), prefixes and single-character mutations of valid inputs over a 40-character hostile alphabet, argument strings up to length 3 after every argument-taking keyword, numeric boundary strings, the lexer's undocumented words, multi-byte boundary inputs; each through parse -> Display / compile -> scheme x2 + io_map under catch_unwind, in a debug and a release build, the worker process supervised for aborts and hangs (bisected to one input; 3 x 30 s isolated re-run rule); the corpus again under AddressSanitizer (nightly, -Zsanitizer=address); the multi-byte subset under Miri; thorough adds valgrind memcheck. Also hand-built trees (incl. degenerate values and same-field pairs with extreme counts) through compile/scheme/io_map, nested groups to depth 64 in every clause position, and expressions with 20-280 distinct matchers and destinations. distinct_nontrivial = distinct inputs not rejected at the first token (reach an argument sub-parser or the compiler).",
    },
    "C04": {
        "legs": [leg_ambient_env],
        "profiles": ["release"],
        "uses_model": True,
        "rule": "one string-carrying site at a time (-name/-iname/-path/-ipath, -pool, -xattr, both -xattr-match arguments, -fprint/-fprint0/-fprintf file names, literal text of -printf/-fprintf formats, strftime selector, device path) x every string of length 1..2 (quick) / 1..3 (thorough) over the 18-character alphabet {\" \\ ~ % ( ) ; # LF TAB U+0001 e-acute emoji a A * ? [} plus random strings to length 24; oracle: independent Guile reader accepts the program as the two expected forms, same structure as the benign twin, a literal decodes to exactly the string, executed behaviour agrees with the reference. distinct_nontrivial = distinct (site, string) pairs containing at least one of \" \\ ~ that reached the emitter.",
    },
    "C05": {
        "legs": [leg_ambient_env],
        "profiles": ["release"],
        "rule": "all 55 keywords x generated members of the keyword's argument language and systematic corruptions (junk appended/inserted/prepended, character dropped, argument emptied/dropped, keyword extended/truncated/glued, glued primaries, missing arguments) in 7 contexts; expected result for every text from the spec-side reference parser (vocabulary table); unspecified corners skipped. distinct_nontrivial = distinct inputs with a non-empty argument on which the two parsers agreed.",
    },
    "C06": {
        "legs": [leg_ambient_env],
        "profiles": ["release"],
        "rule": "each generated expression in canonical spelling vs N layout variants (separator per gap from {SP, SPSP, TAB, LF, CR, CRLF, SP TAB LF}, implicit/-a/-and, -o/-or, 0-2 redundant parenthesis layers with or without inner blanks, bare/'..'/\"..\" quoting of word-valued arguments, leading/trailing blanks); blank inputs vs -true. distinct_nontrivial = distinct variants differing from the canonical text in >= 2 axes.",
    },
    "C07": {
        "legs": [leg_ambient_env],
        "profiles": ["release", "debug"],
        "uses_model": True,
        "rule": "every numeric primary (ids, counts, -links, -size x every unit, six time tests x every unit, -threads) x decimal strings at 0,1,2^31,2^32,2^63,2^64,floor(2^64/unit) +-1/2 with 0/1/7/30 leading zeros and signs, up to 40 digits, plus random values; in-range: tree number equals the u128 reference and the executed policy agrees at value-1/value/value+1; out-of-range: must be an error. Both build profiles. Also ~110 non-decimal notations (fractions, separators, exponents, radix prefixes, SI/IEC/word units, doubled signs, non-ASCII digits) on every primary x unit. distinct_nontrivial = distinct (primary, numeric string) within 2 of a power-of-two boundary of the field or of 2^64/unit.",
    },
    "C08": {
        "legs": [leg_ambient_env],
        "profiles": ["release"],
        "uses_model": True,
        "rule": "all 4096 octal values (3- and 4-digit spelling), all 315 single clauses, all 99225 ordered clause pairs, sampled 3-4 clause lists with shuffled/repeated letters; each under no prefix, '-', '/'; tree variant and bits vs reference chmod; executed policy on directed modes (all 4096 modes for a sample in thorough). distinct_nontrivial = clause lists where a later clause changes bits an earlier one set (pairs whose result differs from both single clauses) plus distinct multi-clause lists.",
    },
    "C09": {
        "legs": [leg_ambient_env],
        "profiles": ["release"],
        "uses_model": True,
        "rule": "every tree of 1..N nodes (N=5 quick, 8 thorough; exhaustive) over leaves {true,false,name a,print,quit,fprint f} and operators {!,and,or,list}, plus random larger trees and a text-route sample; executed on records named a and b and compared with the reference that adds the implicit print iff no action node exists. distinct_nontrivial = trees containing an action that is not the root and not the right-most leaf, plus action-free trees with Or/List at the root.",
    },
    "C10": {
        "legs": [leg_ambient_env],
        "profiles": ["release"],
        "uses_model": True,
        "rule": "all multisets of up to 3 (quick) / 4 (thorough) actions from a pool of 26 (every output action x files a,b,c x 4 formats), random multisets up to 6, and chains with 100-300 destinations; placed in trees where every action runs; checked: mode rule vs io_map() presence, every byte inside a frame, tag -> table entry = (destination, terminator) of the producing action, table injective and complete, plain output lines. distinct_nontrivial = action multisets containing two actions that agree in exactly one of (destination, terminator).",
    },
    "C11": {
        "legs": [leg_ambient_env],
        "profiles": ["release"],
        "uses_model": True,
        "rule": "chains in which every test and action runs, with 0..60 (quick) / 0..300 (thorough) matcher/printer requests in random first-occurrence order, deliberate repeats, case-only differences, literal/glob pairs, same file with different terminators, both output modes; random trees; text route. Monitors: scope analysis of the read program (bound once, before use, no capture), behaviour vs reference on distinguishing file names, run-time count of distinct matcher/printer procedure objects vs distinct requests. Also requests a string-encoded key would merge (37 decorations) and patterns that collide under FNV-1a, FNV-1, the 31-multiplier hash and one-at-a-time. distinct_nontrivial = programs with >= 2 resources of one kind and a deliberate repeat or near-duplicate.",
    },
    "C12": {
        "legs": [leg_ambient_env],
        "profiles": ["release", "debug"],
        "uses_model": True,
        "rule": "every unsupported construct alone (13 tests, 3 actions, 7 format directives, \\c, positional-option node, option node) and random trees over the full vocabulary with 0..3 unsupported constructs at random positions incl. dead branches, under '!', and in non-first position of format strings; constructor and text route; both profiles. Oracle: compile is Err and the message names a construct iff one is present; supported trees compile and execute without an unbound identifier. distinct_nontrivial = trees whose unsupported construct is not at the root.",
    },
    "C13": {
        "legs": [leg_ambient_env],
        "profiles": ["release"],
        "uses_model": True,
        "rule": "random option-free expressions with 0..4 options (-depth, -threads N, -maxdepth N, -mindepth N; repeated with different N) inserted at random chunk boundaries (front, middle, inside parentheses, after '!', end); expected options/tree from the spec-side parser; no option node in the tree; thread count observed as the fifth argument lipe-scan receives in the model runtime. Also leading runs of 17-60 options. An ambient-input leg perturbs every environment variable the code looks up, the logger and (C15) the working directory. distinct_nontrivial = inputs with an option outside the leading run or a repeated option with a different value.",
    },
    "C14": {
        "legs": [leg_ambient_env],
        "profiles": ["release"],
        "rule": "-printf '<s>' for every string of length 1..4 (quick) / 1..5 (thorough) over {% \\ { } : A p n q f c 0 1 7 8 @} (exhaustive), every documented directive and escape singly and in ordered pairs, random strings to length 60; element list vs a hand-written reference scanner; no empty / adjacent literals. Also literal runs with multi-byte characters around directives and literal runs of 4095..70000 characters. distinct_nontrivial = strings containing '%' or '\\' followed by at least one more character.",
    },
    "C15": {
        "profiles": ["release"],
        "legs": [leg_c15_xproc, leg_ambient_env],
        "rule": "resource-heavy random expressions: parsed twice; compiled 5 (quick) / 10 (thorough) times interleaved with unrelated compilations (byte-identical text, equal table; clock tokens normalised for time tests); digests compared across 4 / 16 fresh processes; every integer token >= 10^9 inside the clock window of its compile call, with a re-compile after a 1.1 s sleep for a sample. Also: whenever the library's == calls two trees equal their results must be identical (pairs re-expressed in other units); the same mixed corpus recorded twice on one thread in opposite orders; digests under perturbed environment variables, an installed logger and other working directories. distinct_nontrivial = distinct expressions with >= 3 resources or a time test.",
    },
    "C16": {
        "legs": [leg_ambient_env],
        "profiles": ["release"],
        "uses_model": True,
        "rule": "programs with 1..3 printers (framed and plain, incl. print-relative-path / print-file-fid) x 2..3 logical scanner threads x 1..2 records each (+ stress: 6 printers, 4 threads x 8 records): the emitted text is executed in the model runtime, each thread's lock/write/unlock steps recorded, and interleavings explored by exhaustive DFS within a budget, then random + priority schedules until no new interleaving for 200 schedules; monitors: lockset (Eraser), frame/line decoder at quiescence with per-thread order, deadlock. A display issued while the thread holds no mutex is modelled as two steps (ports are not thread-safe). A third of the actions sit behind a condition on the record; constant formats and the deprecated implicit-print node are in the action pool. distinct_nontrivial = distinct (configuration, interleaving) pairs in which the writers of one port switch between threads at least twice (the threads' records really interleave); schedules with a blocked thread are counted separately.",
        "assumptions": ["a display call made under a mutex is the atom of port output, one made while no mutex is held is two steps (ports are not thread-safe); a thread's step sequence does not depend on the schedule (policies read no shared mutable state)"],
    },
    "C17": {
        "profiles": [],
        "legs": [leg_c17_diff],
        "rule": "the C03 corpus (8 streams) plus constructor-route trees incl. unsupported constructs and over-range sizes; one canonical record per input (ParseErr / Panic / CompileErr / Ok(options, tree, program x2, sorted table), clock normalised) from a debug and from a release build of the same harness, diffed record by record. distinct_nontrivial = inputs that reach compile in the release build.",
    },
    "C18": {
        "legs": [leg_ambient_env],
        "profiles": ["release"],
        "rule": "every argument-taking keyword x (argument missing at end of input / before ')', or an argument invalid from its first character for the keyword's class) after 0..3 valid primaries, inside parentheses, after '!', before 0..2 more primaries; unknown words at random positions. Message grammar: non-empty, names the keyword, quotes the offending word (empty pair when missing), quotes nothing that is not in the input. Also mistyped keywords, control / zero-width characters in offending words, and failing primaries followed by 70-300 KiB of input. distinct_nontrivial = distinct failing inputs with at least one primary before the failing one whose message satisfied the grammar.",
    },
    "C19": {
        "legs": [leg_ambient_env],
        "profiles": ["release"],
        "rule": "random trees through the public constructors to depth 12+ incl. Precedence, nested List, option and positional nodes, every action kind, sparse trees where a single action decides; action() and complex_frames() vs own folds; unit tables and byte_size() vs constants / u128 products. distinct_nontrivial = trees of depth >= 3 whose answer is decided by a node off the left spine, plus size literals above 2^63 bytes.",
    },
    "C20": {
        "legs": [leg_ambient_env],
        "profiles": ["release"],
        "uses_model": True,
        "rule": "random compiled expressions x histories scheme(p1), io_map, scheme(p2), scheme(p1), io_map, scheme(p2), scheme(p1) with paths from benign and hostile strings (quotes, backslashes, blanks, parentheses, newline, non-ASCII, 64 KiB); same path -> identical text; table unchanged; the two texts read back and differ in exactly one string leaf decoding to the paths; lipe-scan receives the path at run time. distinct_nontrivial = (expression, path pair) with a path containing a quote or backslash.",
    },
}
