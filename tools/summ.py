import json,sys
d=json.load(open(sys.argv[1]))
print(d['property_id'], 'eval',d['evaluations'], 'nontriv',d['distinct_nontrivial'], 'viol', d['violation_total'], 'skip', d['skipped_unspecified'], 'inconcl',d['inconclusive'][:2], 'floors',[ (f['name'][:30],f['ok']) for f in d['floors']], 'wall', round(d['wall_s'],1))
print(' ',{k:v for k,v in d['counters'].items() if not k.startswith('skip')})
print(' ',{k:v for k,v in d['counters'].items() if k.startswith('skip')})
seen=set()
for v in d['violations']:
    if v['sig'] in seen: continue
    seen.add(v['sig']); print('  ',v['sig'],v['count'],'|',v['what'][:260].replace(chr(10),' '), '|', v['case'])
