#!/usr/bin/env python3
"""First-order mutation run against the checks, in an isolated copy of /repo and /verif.

  tools/automut.py [--n 150] [--seed 1] [--checks C01,C02,...]

Generates single-token mutants of /repo/src (outside #[cfg(test)] / #[test] code), keeps those that
compile and still pass the repository's 45 tests (survivors of the existing suite), runs the quick
checks on each survivor and records which checks exit 1. Writes /verif/seeded/automut.json.
Survivors no check catches are listed for manual triage (equivalent mutant, outside every property,
or a blind spot).
"""
import json, os, random, re, shutil, subprocess, sys, time

VERIF = os.path.dirname(os.path.dirname(os.path.abspath(__file__)))
ROOT = "/tmp/fpv_automut"
ALL = ["C%02d" % i for i in range(1, 21)]
CHEAP = [c for c in ALL]

SWAPS = [
    (r" == ", " != "), (r" != ", " == "), (r" < ", " <= "), (r" > ", " >= "), (r" <= ", " < "), (r" >= ", " > "),
    (r" && ", " || "), (r" \|\| ", " && "), (r" \+ ", " - "), (r" - ", " + "), (r" \* ", " / "),
    (r"\btrue\b", "false"), (r"\bfalse\b", "true"),
    (r"!matches!", "matches!"), (r"\.is_some\(\)", ".is_none()"), (r"\.is_none\(\)", ".is_some()"), (r"\.is_empty\(\)", ".len() == 1"),
    (r"\.complement\(\)", ""), (r"(?<![\w])!\(", "("),
    (r"\batime\b", "mtime"), (r"\bmtime\b", "ctime"), (r"\bctime\b", "atime"), (r"\buid\b", "gid"), (r"\bgid\b", "uid"), (r"\bnlink\b", "ino"),
    (r"\(> \(", "(>= ("), (r"\(< \(", "(<= ("), (r"\(= \(", "(> ("), (r"fnmatch-ci", "fnmatch"), (r"streq-ci", "streq"), (r"\"streq\"", "\"fnmatch\""),
    (r"relative-path", "absolute-path"), (r"absolute-path", "relative-path"), (r"call-with-name", "call-with-relative-path"),
    (r"Some\('\\n'\)", "Some('\\0')"), (r"Some\('\\0'\)", "Some('\\n')"), (r"\(and ", "(or "), (r"\(or ", "(and "), (r"\(not ", "(and "),
    (r"~a", "~d"), (r"~d", "~a"), (r"~o", "~d"), (r"S_IRWXU", "S_IRWXG"), (r"S_IRUSR", "S_IWUSR"), (r"S_IXOTH", "S_IWOTH"), (r"S_ISUID", "S_ISGID"),
    (r"GreaterThan", "LesserThan"), (r"LesserThan", "GreaterThan"), (r"\bAnd\b", "Or"), (r"\bOr\b", "And"),
    (r"multispace1", "multispace0"), (r"multispace0", "multispace1"), (r"cut_err\(", "("), (r"0\.\.", "1.."), (r"1\.\.", "0.."), (r"3\.\.=3", "3..=4"),
    (r"var_index \+ 1", "var_index"), (r"var_index \+= 2", "var_index += 1"), (r"var_index \+= 1", "var_index += 2"), (r"var_index - 1", "var_index"),
    (r"\.first\(\)", ".last()"), (r"\.last\(\)", ".first()"),
]
DELETE = False
NUM = re.compile(r"(?<![\w.#x])(\d+)(?![\w.])")
OCT = re.compile(r"0o([0-7]+)")


def sh(cmd, cwd=None, env=None, timeout=3600):
    p = subprocess.run(cmd, cwd=cwd, shell=True, stdout=subprocess.PIPE, stderr=subprocess.STDOUT, text=True, env=env, timeout=timeout, errors="replace")
    return p.returncode, p.stdout


def candidates(repo):
    out = []
    for dirpath, _, files in os.walk(os.path.join(repo, "src")):
        for f in files:
            if not f.endswith(".rs"):
                continue
            path = os.path.join(dirpath, f)
            lines = open(path).read().split("\n")
            in_test = False
            for i, line in enumerate(lines):
                s = line.strip()
                if s.startswith("#[cfg(test)]") or s.startswith("#[test]"):
                    in_test = True  # tests sit at the end of each file in this crate
                if in_test or s.startswith("//") or s.startswith("///") or not s:
                    continue
                if "=>" in line and "|" in line and ("Some(" not in line):
                    pass
                for pat, rep in SWAPS:
                    for m in re.finditer(pat, line):
                        new = line[:m.start()] + re.sub(pat, rep.replace("\\", "\\\\"), line[m.start():m.end()], count=1) + line[m.end():]
                        if new != line:
                            out.append((path, i, line, new, "%s -> %s" % (pat, rep)))
                for m in ([] if DELETE else NUM.finditer(line)):
                    if "fn " in line or "derive" in line:
                        continue
                    v = int(m.group(1))
                    new = line[:m.start()] + str(v + 1) + line[m.end():]
                    out.append((path, i, line, new, "const %d -> %d" % (v, v + 1)))
                if DELETE and s.endswith(";") and not s.startswith(("let ", "use ", "pub ", "return", "}", "log::", "const ", "static ", "type ", "mod ")) and "=>" not in s:
                    out.append((path, i, line, "", "delete statement"))
                for m in ([] if DELETE else OCT.finditer(line)):
                    v = int(m.group(1), 8)
                    new = line[:m.start()] + "0o%o" % (v ^ 1) + line[m.end():]
                    out.append((path, i, line, new, "octal const flip low bit"))
    return out


def main():
    n = 150
    seed = 1
    checks = CHEAP
    offset = 0
    out_name = "automut.json"
    a = sys.argv[1:]
    i = 0
    while i < len(a):
        if a[i] == "--n":
            n = int(a[i + 1])
        elif a[i] == "--seed":
            seed = int(a[i + 1])
        elif a[i] == "--checks":
            checks = a[i + 1].split(",")
        elif a[i] == "--delete-only":
            global DELETE
            DELETE = True
            SWAPS.clear()
            i -= 1
        elif a[i] == "--offset":
            offset = int(a[i + 1])
        elif a[i] == "--out":
            out_name = a[i + 1]
        i += 2
    shutil.rmtree(ROOT, ignore_errors=True)
    os.makedirs(ROOT)
    sh("rsync -a --exclude target --exclude logs --exclude replays --exclude .git %s/ %s/verif/" % (VERIF, ROOT))
    sh("rsync -a --exclude target /repo/ %s/repo/" % ROOT)
    sh("sed -i 's#path = \"/repo\"#path = \"%s/repo\"#' %s/verif/harness/Cargo.toml" % (ROOT, ROOT))
    repo = ROOT + "/repo"
    env = dict(os.environ, VERIF_NO_EVIDENCE="1", CARGO_NET_OFFLINE="true")
    cands = candidates(repo)
    random.Random(seed).shuffle(cands)
    cands = cands[offset:]
    out_path = os.path.join(VERIF, "seeded", out_name)
    result = {"seed": seed, "candidates": len(cands), "tried": 0, "not_compiling": 0, "killed_by_suite": 0, "survivors": []}
    try:
        # warm builds
        sh("cargo test --offline --lib 2>&1 | tail -2", cwd=repo, env=env)
        for path, ln, old, new, op in cands:
            if len(result["survivors"]) >= n:
                break
            result["tried"] += 1
            lines = open(path).read().split("\n")
            lines[ln] = new
            open(path, "w").write("\n".join(lines))
            try:
                rc, o = sh("cargo build --offline 2>&1 | tail -3", cwd=repo, env=env)
                if "error" in o and "Finished" not in o:
                    result["not_compiling"] += 1
                    continue
                rc, o = sh("cargo test --offline --lib 2>&1 | grep 'test result' | head -1", cwd=repo, env=env, timeout=600)
                if "45 passed" not in o or " 0 failed" not in o:
                    result["killed_by_suite"] += 1
                    continue
                row = {"file": os.path.relpath(path, repo), "line": ln + 1, "op": op, "old": old.strip(), "new": new.strip(), "caught_by": [], "other": {}}
                for pid in checks:
                    rc, o = sh("./check %s --tier quick" % pid, cwd=ROOT + "/verif", env=env)
                    if rc == 1:
                        row["caught_by"].append(pid)
                    elif rc != 0:
                        row["other"][pid] = rc
                result["survivors"].append(row)
                print("%s:%d [%s] %s  => %s %s" % (row["file"], row["line"], op, row["new"][:70], row["caught_by"] or "NOT CAUGHT", row["other"] or ""), flush=True)
                json.dump(result, open(out_path, "w"), indent=1)
            finally:
                lines[ln] = old
                open(path, "w").write("\n".join(lines))
        json.dump(result, open(out_path, "w"), indent=1)
    finally:
        shutil.rmtree(ROOT, ignore_errors=True)
    surv = result["survivors"]
    print("tried %d, not compiling %d, killed by the 45 tests %d, survivors %d, caught by some check %d" % (result["tried"], result["not_compiling"], result["killed_by_suite"], len(surv), sum(1 for s in surv if s["caught_by"])))


if __name__ == "__main__":
    main()
